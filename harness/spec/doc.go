package spec

// Abstract document: built by the harness directly from the event script (never
// through xsel's Cursor), nodes in document order.

type Kind int

const (
	Root Kind = iota
	Elem
	Attr
	NSNode
	Text
	Comment
	PI
)

func (k Kind) String() string {
	return [...]string{"root", "element", "attribute", "namespace", "text", "comment", "pi"}[k]
}

type Node struct {
	Kind     Kind
	Parent   int // -1 for the root
	Local    string
	Space    string
	Value    string // attribute value, text, comment, PI data, namespace URI
	Prefix   string // namespace nodes
	Children []int  // root/element: child nodes in document order
	Attrs    []int
	NS       []int
}

type Doc struct {
	Nodes []Node // document order: element, its namespace nodes, its attributes, its children
}

func NewDoc() *Doc {
	return &Doc{Nodes: []Node{{Kind: Root, Parent: -1}}}
}

// Add appends a node under parent p and returns its index. Callers add nodes in
// document order.
func (d *Doc) Add(p int, n Node) int {
	n.Parent = p
	id := len(d.Nodes)
	d.Nodes = append(d.Nodes, n)
	switch n.Kind {
	case Attr:
		d.Nodes[p].Attrs = append(d.Nodes[p].Attrs, id)
	case NSNode:
		d.Nodes[p].NS = append(d.Nodes[p].NS, id)
	default:
		d.Nodes[p].Children = append(d.Nodes[p].Children, id)
	}
	return id
}

// StringValue is the XPath string-value of a node (section 5).
func (d *Doc) StringValue(i int) string {
	n := &d.Nodes[i]
	switch n.Kind {
	case Root, Elem:
		s := ""
		for _, c := range n.Children {
			switch d.Nodes[c].Kind {
			case Text:
				s += d.Nodes[c].Value
			case Elem:
				s += d.StringValue(c)
			}
		}
		return s
	}
	return n.Value
}

// IsAncestor reports whether a is a proper ancestor of b.
func (d *Doc) IsAncestor(a, b int) bool {
	for p := d.Nodes[b].Parent; p >= 0; p = d.Nodes[p].Parent {
		if p == a {
			return true
		}
	}
	return false
}

// Axis returns the nodes of the axis from context node c, in axis order
// (document order for forward axes, reverse document order for reverse axes).
// XPath 1.0 section 2.2.
func (d *Doc) Axis(axis string, c int) []int {
	n := &d.Nodes[c]
	var out []int
	switch axis {
	case "self":
		out = []int{c}
	case "child":
		out = append(out, n.Children...)
	case "parent":
		if n.Parent >= 0 {
			out = []int{n.Parent}
		}
	case "attribute":
		out = append(out, n.Attrs...)
	case "namespace":
		out = append(out, n.NS...)
	case "descendant":
		out = d.descendants(c, nil)
	case "descendant-or-self":
		out = d.descendants(c, []int{c})
	case "ancestor":
		for p := n.Parent; p >= 0; p = d.Nodes[p].Parent {
			out = append(out, p)
		}
	case "ancestor-or-self":
		out = []int{c}
		for p := n.Parent; p >= 0; p = d.Nodes[p].Parent {
			out = append(out, p)
		}
	case "following-sibling":
		if n.Kind != Attr && n.Kind != NSNode && n.Parent >= 0 {
			sib := d.Nodes[n.Parent].Children
			for k, s := range sib {
				if s == c {
					out = append(out, sib[k+1:]...)
				}
			}
		}
	case "preceding-sibling":
		if n.Kind != Attr && n.Kind != NSNode && n.Parent >= 0 {
			sib := d.Nodes[n.Parent].Children
			for k, s := range sib {
				if s == c {
					for j := k - 1; j >= 0; j-- {
						out = append(out, sib[j])
					}
				}
			}
		}
	case "following":
		// all nodes after c in document order, excluding descendants, attributes
		// and namespace nodes
		for j := c + 1; j < len(d.Nodes); j++ {
			k := d.Nodes[j].Kind
			if k == Attr || k == NSNode {
				continue
			}
			if d.IsAncestor(c, j) {
				continue
			}
			out = append(out, j)
		}
	case "preceding":
		for j := c - 1; j >= 0; j-- {
			k := d.Nodes[j].Kind
			if k == Attr || k == NSNode {
				continue
			}
			if d.IsAncestor(j, c) {
				continue
			}
			out = append(out, j)
		}
	default:
		panic("spec: unknown axis " + axis)
	}
	return out
}

func (d *Doc) descendants(c int, out []int) []int {
	for _, ch := range d.Nodes[c].Children {
		out = append(out, ch)
		out = d.descendants(ch, out)
	}
	return out
}

// ReverseAxis reports the reverse axes.
func ReverseAxis(axis string) bool {
	switch axis {
	case "ancestor", "ancestor-or-self", "preceding", "preceding-sibling":
		return true
	}
	return false
}

var Axes = []string{"ancestor", "ancestor-or-self", "attribute", "child", "descendant", "descendant-or-self",
	"following", "following-sibling", "namespace", "parent", "preceding", "preceding-sibling", "self"}
