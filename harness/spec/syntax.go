package spec

// Accepts is a recogniser of XPath 1.0 expressions (sections 2, 3 and the
// lexical structure of 3.7, including the disambiguation rules), written from
// the recommendation, plus the extensions xsel documents in its README:
// a function call may be a step of a path, '*:name' is a name test, and '#'
// is a name character. id() is syntactically an ordinary function call.

type tkind int

const (
	tLP tkind = iota
	tRP
	tLB
	tRB
	tDot
	tDotDot
	tAt
	tComma
	tColonColon
	tStar     // NameTest '*'
	tName     // QName | NCName:* | *:NCName
	tNodeType // comment text processing-instruction node, followed by '('
	tFunc     // function name, followed by '('
	tAxis     // axis name, followed by '::'
	tOpName   // and or mod div
	tMult
	tSlash
	tDSlash
	tPipe
	tPlus
	tMinus
	tEq
	tNe
	tLt
	tLe
	tGt
	tGe
	tLit
	tNum
	tVar
	tEOF
)

type tok struct {
	k tkind
	s string
}

func isSpace(c byte) bool { return c == ' ' || c == '\t' || c == '\r' || c == '\n' }

func isNameStart(c byte) bool {
	return c >= 'a' && c <= 'z' || c >= 'A' && c <= 'Z' || c == '_' || c == '#' || c >= 0x80
}

func isNameChar(c byte) bool {
	return isNameStart(c) || c >= '0' && c <= '9' || c == '-' || c == '.'
}

func isDigit(c byte) bool { return c >= '0' && c <= '9' }

func isOperator(k tkind) bool {
	switch k {
	case tOpName, tMult, tSlash, tDSlash, tPipe, tPlus, tMinus, tEq, tNe, tLt, tLe, tGt, tGe:
		return true
	}
	return false
}

var axisNames = map[string]bool{"ancestor": true, "ancestor-or-self": true, "attribute": true, "child": true,
	"descendant": true, "descendant-or-self": true, "following": true, "following-sibling": true, "namespace": true,
	"parent": true, "preceding": true, "preceding-sibling": true, "self": true}

var nodeTypes = map[string]bool{"comment": true, "text": true, "processing-instruction": true, "node": true}

func ncname(s string, i int) int {
	if i >= len(s) || !isNameStart(s[i]) {
		return i
	}
	j := i + 1
	for j < len(s) && isNameChar(s[j]) {
		j++
	}
	return j
}

func skipSpace(s string, i int) int {
	for i < len(s) && isSpace(s[i]) {
		i++
	}
	return i
}

// tokenize returns nil, false for a lexical error.
func tokenize(s string) ([]tok, bool) {
	var out []tok
	i := 0
	for {
		i = skipSpace(s, i)
		if i >= len(s) {
			return append(out, tok{k: tEOF}), true
		}
		c := s[i]
		// rule 1: after a token that is not @ :: ( [ , or an operator, '*' is the
		// multiply operator and an NCName is an operator name
		operatorPos := false
		if n := len(out); n > 0 {
			p := out[n-1].k
			operatorPos = !(p == tAt || p == tColonColon || p == tLP || p == tLB || p == tComma || isOperator(p))
		}
		switch {
		case c == '(':
			out, i = append(out, tok{k: tLP}), i+1
		case c == ')':
			out, i = append(out, tok{k: tRP}), i+1
		case c == '[':
			out, i = append(out, tok{k: tLB}), i+1
		case c == ']':
			out, i = append(out, tok{k: tRB}), i+1
		case c == '@':
			out, i = append(out, tok{k: tAt}), i+1
		case c == ',':
			out, i = append(out, tok{k: tComma}), i+1
		case c == '|':
			out, i = append(out, tok{k: tPipe}), i+1
		case c == '+':
			out, i = append(out, tok{k: tPlus}), i+1
		case c == '-':
			out, i = append(out, tok{k: tMinus}), i+1
		case c == '=':
			out, i = append(out, tok{k: tEq}), i+1
		case c == '!':
			if i+1 < len(s) && s[i+1] == '=' {
				out, i = append(out, tok{k: tNe}), i+2
			} else {
				return nil, false
			}
		case c == '<':
			if i+1 < len(s) && s[i+1] == '=' {
				out, i = append(out, tok{k: tLe}), i+2
			} else {
				out, i = append(out, tok{k: tLt}), i+1
			}
		case c == '>':
			if i+1 < len(s) && s[i+1] == '=' {
				out, i = append(out, tok{k: tGe}), i+2
			} else {
				out, i = append(out, tok{k: tGt}), i+1
			}
		case c == '/':
			if i+1 < len(s) && s[i+1] == '/' {
				out, i = append(out, tok{k: tDSlash}), i+2
			} else {
				out, i = append(out, tok{k: tSlash}), i+1
			}
		case c == ':':
			if i+1 < len(s) && s[i+1] == ':' {
				out, i = append(out, tok{k: tColonColon}), i+2
			} else {
				return nil, false
			}
		case c == '.':
			if i+1 < len(s) && isDigit(s[i+1]) {
				j := i + 1
				for j < len(s) && isDigit(s[j]) {
					j++
				}
				out, i = append(out, tok{k: tNum}), j
			} else if i+1 < len(s) && s[i+1] == '.' {
				out, i = append(out, tok{k: tDotDot}), i+2
			} else {
				out, i = append(out, tok{k: tDot}), i+1
			}
		case isDigit(c):
			j := i
			for j < len(s) && isDigit(s[j]) {
				j++
			}
			if j < len(s) && s[j] == '.' {
				j++
				for j < len(s) && isDigit(s[j]) {
					j++
				}
			}
			out, i = append(out, tok{k: tNum}), j
		case c == '"' || c == '\'':
			j := i + 1
			for j < len(s) && s[j] != c {
				j++
			}
			if j >= len(s) {
				return nil, false
			}
			out, i = append(out, tok{k: tLit, s: s[i+1 : j]}), j+1
		case c == '$':
			j := ncname(s, i+1)
			if j == i+1 {
				return nil, false
			}
			if j+1 < len(s) && s[j] == ':' && isNameStart(s[j+1]) {
				j = ncname(s, j+1)
			}
			out, i = append(out, tok{k: tVar}), j
		case c == '*':
			if operatorPos {
				out, i = append(out, tok{k: tMult}), i+1
			} else if i+2 < len(s) && s[i+1] == ':' && isNameStart(s[i+2]) {
				// extension: *:NCName
				out, i = append(out, tok{k: tName}), ncname(s, i+2)
			} else {
				out, i = append(out, tok{k: tStar}), i+1
			}
		case isNameStart(c):
			j := ncname(s, i)
			name := s[i:j]
			if operatorPos {
				if name == "and" || name == "or" || name == "mod" || name == "div" {
					out, i = append(out, tok{k: tOpName, s: name}), j
					continue
				}
				return nil, false
			}
			prefixed := false
			if j+1 < len(s) && s[j] == ':' && s[j+1] == '*' {
				out, i = append(out, tok{k: tName}), j+2 // NCName:*
				continue
			}
			if j+1 < len(s) && s[j] == ':' && isNameStart(s[j+1]) {
				j = ncname(s, j+1)
				prefixed = true
			}
			k := skipSpace(s, j)
			switch {
			case k < len(s) && s[k] == '(':
				// rule 2: node type or function name
				if !prefixed && nodeTypes[name] {
					out = append(out, tok{k: tNodeType, s: name})
				} else {
					out = append(out, tok{k: tFunc})
				}
			case !prefixed && k+1 < len(s) && s[k] == ':' && s[k+1] == ':':
				// rule 3: axis name
				if !axisNames[name] {
					return nil, false
				}
				out = append(out, tok{k: tAxis})
			default:
				out = append(out, tok{k: tName})
			}
			i = j
		default:
			return nil, false
		}
	}
}

type parser struct {
	t []tok
	p int
}

func (p *parser) peek() tkind { return p.t[p.p].k }
func (p *parser) next()       { p.p++ }
func (p *parser) accept(k tkind) bool {
	if p.peek() == k {
		p.p++
		return true
	}
	return false
}

// Accepts reports whether s is an XPath 1.0 expression (with xsel's documented
// extensions).
func Accepts(s string) bool {
	toks, ok := tokenize(s)
	if !ok {
		return false
	}
	p := &parser{t: toks}
	return p.orExpr() && p.peek() == tEOF
}

func (p *parser) binary(sub func() bool, ops ...tkind) bool {
	if !sub() {
		return false
	}
	for {
		matched := false
		for _, o := range ops {
			if p.peek() == o {
				matched = true
			}
		}
		if !matched {
			return true
		}
		p.next()
		if !sub() {
			return false
		}
	}
}

func (p *parser) opName(name string, sub func() bool) bool {
	if !sub() {
		return false
	}
	for p.peek() == tOpName && p.t[p.p].s == name {
		p.next()
		if !sub() {
			return false
		}
	}
	return true
}

func (p *parser) orExpr() bool  { return p.opName("or", p.andExpr) }
func (p *parser) andExpr() bool { return p.opName("and", p.equality) }
func (p *parser) equality() bool {
	return p.binary(p.relational, tEq, tNe)
}
func (p *parser) relational() bool {
	return p.binary(p.additive, tLt, tLe, tGt, tGe)
}
func (p *parser) additive() bool { return p.binary(p.multiplicative, tPlus, tMinus) }
func (p *parser) multiplicative() bool {
	if !p.unary() {
		return false
	}
	for {
		if p.peek() == tMult || (p.peek() == tOpName && (p.t[p.p].s == "div" || p.t[p.p].s == "mod")) {
			p.next()
			if !p.unary() {
				return false
			}
			continue
		}
		return true
	}
}

func (p *parser) unary() bool {
	for p.accept(tMinus) {
	}
	return p.binary(p.pathExpr, tPipe)
}

func (p *parser) startsStep() bool {
	switch p.peek() {
	case tAxis, tAt, tStar, tName, tNodeType, tDot, tDotDot, tFunc:
		return true
	}
	return false
}

func (p *parser) pathExpr() bool {
	switch p.peek() {
	case tVar, tLP, tLit, tNum, tFunc:
		// FilterExpr (('/' | '//') RelativeLocationPath)?
		if !p.primary() {
			return false
		}
		for p.peek() == tLB {
			if !p.predicate() {
				return false
			}
		}
		if p.peek() == tSlash || p.peek() == tDSlash {
			p.next()
			return p.relativePath()
		}
		return true
	case tSlash:
		p.next()
		if p.startsStep() {
			return p.relativePath()
		}
		return true
	case tDSlash:
		p.next()
		return p.relativePath()
	}
	return p.relativePath()
}

func (p *parser) relativePath() bool {
	if !p.step() {
		return false
	}
	for p.peek() == tSlash || p.peek() == tDSlash {
		p.next()
		if !p.step() {
			return false
		}
	}
	return true
}

func (p *parser) step() bool {
	switch p.peek() {
	case tDot, tDotDot:
		p.next()
		return true
	case tFunc:
		// extension: a function call as a step
		return p.functionCall()
	case tAxis:
		p.next()
		if !p.accept(tColonColon) {
			return false
		}
	case tAt:
		p.next()
	}
	// node test
	switch p.peek() {
	case tStar, tName:
		p.next()
	case tNodeType:
		nt := p.t[p.p].s
		p.next()
		if !p.accept(tLP) {
			return false
		}
		if nt == "processing-instruction" && p.peek() == tLit {
			p.next()
		}
		if !p.accept(tRP) {
			return false
		}
	default:
		return false
	}
	for p.peek() == tLB {
		if !p.predicate() {
			return false
		}
	}
	return true
}

func (p *parser) predicate() bool {
	return p.accept(tLB) && p.orExpr() && p.accept(tRB)
}

func (p *parser) primary() bool {
	switch p.peek() {
	case tVar, tLit, tNum:
		p.next()
		return true
	case tLP:
		p.next()
		return p.orExpr() && p.accept(tRP)
	case tFunc:
		return p.functionCall()
	}
	return false
}

func (p *parser) functionCall() bool {
	if !p.accept(tFunc) || !p.accept(tLP) {
		return false
	}
	if p.accept(tRP) {
		return true
	}
	for {
		if !p.orExpr() {
			return false
		}
		if p.accept(tRP) {
			return true
		}
		if !p.accept(tComma) {
			return false
		}
	}
}
