// Package spec is the reference model of XPath 1.0 used as oracle by the
// harnesses. It is deliberately simple and written from the recommendation,
// not from xsel's code.
package spec

import (
	"math"
	"strconv"

	"verifharness/nd"
)

// IsXMLSpace reports the four XML whitespace characters.
func IsXMLSpace(c byte) bool { return c == ' ' || c == '\t' || c == '\r' || c == '\n' }

// TrimXMLSpace strips leading and trailing XML whitespace.
func TrimXMLSpace(s string) string {
	i, j := 0, len(s)
	for i < j && IsXMLSpace(s[i]) {
		i++
	}
	for j > i && IsXMLSpace(s[j-1]) {
		j--
	}
	return s[i:j]
}

// IsNumberLiteral: '-'? (Digits ('.' Digits?)? | '.' Digits)
func IsNumberLiteral(s string) bool {
	i := 0
	if i < len(s) && s[i] == '-' {
		i++
	}
	d0 := 0
	for i < len(s) && s[i] >= '0' && s[i] <= '9' {
		i++
		d0++
	}
	d1 := 0
	if i < len(s) && s[i] == '.' {
		i++
		for i < len(s) && s[i] >= '0' && s[i] <= '9' {
			i++
			d1++
		}
	}
	return i == len(s) && (d0 > 0 || d1 > 0)
}

// Number is the XPath number() of a string (section 4.4).
func Number(s string) float64 {
	t := TrimXMLSpace(s)
	if !IsNumberLiteral(t) {
		return math.NaN()
	}
	// the syntax was checked above, so the only possible error is ErrRange: a
	// numeral beyond the largest double converts, by IEEE round-to-nearest, to
	// an infinity, which is what ParseFloat returns along with the error
	v, _ := strconv.ParseFloat(t, 64)
	return v
}

// Round is XPath round(): the closest integer, ties toward +infinity; NaN and
// infinities pass through; -0 for arguments in [-0.5, -0].
func Round(x float64) float64 {
	r := math.Floor(x)
	up := x-r >= 0.5
	res := nd.IteF64(up, r+1, r)
	negZero := nd.And(res == 0, math.Signbit(x))
	return nd.IteF64(negZero, math.Copysign(0, -1), res)
}

// BoolOfNumber: true iff neither zero nor NaN.
func BoolOfNumber(x float64) bool { return nd.And(x == x, x != 0) }

// NumberToString is XPath string() of a number (section 4.2): NaN, Infinity,
// -Infinity, "0" for both zeros, otherwise decimal notation without exponent.
// Digits come from strconv (trusted; the engine models it on a stated domain).
func NumberToString(x float64) string {
	if x != x {
		return "NaN"
	}
	if math.IsInf(x, 1) {
		return "Infinity"
	}
	if math.IsInf(x, -1) {
		return "-Infinity"
	}
	if x == 0 {
		return "0"
	}
	return strconv.FormatFloat(x, 'f', -1, 64)
}

// RoundForCompare equals Round except possibly in the sign of a zero result:
// round-half-away-from-zero corrected for ties below zero, which round toward
// positive infinity. It exists because solvers decide goals over this form
// much faster than over the floor-based definition; the equivalence
// Round(x) == RoundForCompare(x) (IEEE ==, or both NaN) for every double is an
// obligation of its own (c06.RunRoundLemma).
func RoundForCompare(x float64) float64 {
	r := math.Round(x)
	if x < 0 && IsTie(x) {
		r = r + 1
	}
	return r
}

// IsTie: x lies exactly halfway between two integers (2x is an odd integer).
// x-floor(x) == 0.5 is not an exact test: for x = -0.49999999999999994 the
// subtraction rounds to 0.5 (found by the solver on the first formulation).
func IsTie(x float64) bool {
	d := x + x
	return nd.And(d == math.Floor(d), x != math.Floor(x))
}
