package spec

import (
	"strconv"
	"strings"
)

// Render prints an AST as an XPath expression with full parenthesisation of
// binary operators (so the structure is unambiguous for the real parser).
func Render(e Expr) string {
	switch e := e.(type) {
	case Num:
		return strconv.FormatFloat(e.V, 'f', -1, 64)
	case Str:
		if strings.Contains(e.V, "'") {
			return `"` + e.V + `"`
		}
		return "'" + e.V + "'"
	case Var:
		if e.Prefix != "" {
			return "$" + e.Prefix + ":" + e.Local
		}
		return "$" + e.Local
	case Neg:
		return "-" + renderOperand(e.X)
	case Bin:
		return renderOperand(e.L) + " " + e.Op + " " + renderOperand(e.R)
	case Call:
		return renderCall(e)
	case Filter:
		s := renderPrimary(e.Primary)
		for _, p := range e.Preds {
			s += "[" + Render(p) + "]"
		}
		return s
	case Path:
		return renderPath(e)
	}
	panic("spec.Render: unknown expression")
}

func renderCall(e Call) string {
	parts := make([]string, len(e.Args))
	for k, a := range e.Args {
		parts[k] = Render(a)
	}
	name := e.Name
	if e.Prefix != "" {
		name = e.Prefix + ":" + name
	}
	return name + "(" + strings.Join(parts, ", ") + ")"
}

func renderPrimary(e Expr) string {
	switch e.(type) {
	case Num, Str, Var, Call:
		return Render(e)
	}
	return "(" + Render(e) + ")"
}

func renderOperand(e Expr) string {
	switch e.(type) {
	case Bin, Neg:
		return "(" + Render(e) + ")"
	}
	return Render(e)
}

func RenderTest(t NodeTest) string {
	switch t.Kind {
	case TNode:
		return "node()"
	case TText:
		return "text()"
	case TComment:
		return "comment()"
	case TPI:
		if t.HasPIArg {
			return "processing-instruction('" + t.PITarget + "')"
		}
		return "processing-instruction()"
	}
	if t.Prefix != "" {
		return t.Prefix + ":" + t.Local
	}
	return t.Local
}

func renderStep(st Step) string {
	if st.Fn != nil {
		return renderCall(*st.Fn)
	}
	s := st.Axis + "::" + RenderTest(st.Test)
	for _, p := range st.Preds {
		s += "[" + Render(p) + "]"
	}
	return s
}

func renderPath(p Path) string {
	var sb strings.Builder
	if p.Start != nil {
		sb.WriteString(renderPrimaryOrFilter(p.Start))
		for _, st := range p.Steps {
			sb.WriteString("/")
			sb.WriteString(renderStep(st))
		}
		return sb.String()
	}
	if p.Abs {
		sb.WriteString("/")
	}
	for k, st := range p.Steps {
		if k > 0 {
			sb.WriteString("/")
		}
		sb.WriteString(renderStep(st))
	}
	return sb.String()
}

func renderPrimaryOrFilter(e Expr) string {
	if f, ok := e.(Filter); ok {
		return Render(f)
	}
	return renderPrimary(e)
}

// Convenience constructors ---------------------------------------------------------

func NameTest(prefix, local string) NodeTest {
	return NodeTest{Kind: TName, Prefix: prefix, Local: local}
}

func S(axis string, t NodeTest, preds ...Expr) Step { return Step{Axis: axis, Test: t, Preds: preds} }

func Rel(steps ...Step) Path { return Path{Steps: steps} }

func AbsP(steps ...Step) Path { return Path{Abs: true, Steps: steps} }

func Fn(name string, args ...Expr) Call { return Call{Name: name, Args: args} }

// RenderAbbrev prints the same tree with the abbreviated syntax wherever XPath
// 1.0 offers one: child:: is omitted, attribute:: becomes @, self::node() is
// '.', parent::node() is '..', and /descendant-or-self::node()/ is '//'.
// Binary operators are parenthesised as in Render.
func RenderAbbrev(e Expr) string {
	switch e := e.(type) {
	case Neg:
		return "-" + abbrevOperand(e.X)
	case Bin:
		return abbrevOperand(e.L) + " " + e.Op + " " + abbrevOperand(e.R)
	case Call:
		parts := make([]string, len(e.Args))
		for k, a := range e.Args {
			parts[k] = RenderAbbrev(a)
		}
		name := e.Name
		if e.Prefix != "" {
			name = e.Prefix + ":" + name
		}
		return name + "(" + strings.Join(parts, ", ") + ")"
	case Filter:
		s := abbrevPrimary(e.Primary)
		for _, p := range e.Preds {
			s += "[" + RenderAbbrev(p) + "]"
		}
		return s
	case Path:
		return abbrevPath(e)
	}
	return Render(e)
}

func abbrevPrimary(e Expr) string {
	switch e.(type) {
	case Num, Str, Var, Call:
		return RenderAbbrev(e)
	}
	return "(" + RenderAbbrev(e) + ")"
}

func abbrevOperand(e Expr) string {
	switch e.(type) {
	case Bin, Neg:
		return "(" + RenderAbbrev(e) + ")"
	}
	return RenderAbbrev(e)
}

func isDOS(st Step) bool {
	return st.Fn == nil && st.Axis == "descendant-or-self" && st.Test.Kind == TNode && len(st.Preds) == 0
}

func abbrevStep(st Step) string {
	if st.Fn != nil {
		return RenderAbbrev(*st.Fn)
	}
	if st.Test.Kind == TNode && len(st.Preds) == 0 {
		switch st.Axis {
		case "self":
			return "."
		case "parent":
			return ".."
		}
	}
	s := ""
	switch st.Axis {
	case "child":
	case "attribute":
		s = "@"
	default:
		s = st.Axis + "::"
	}
	s += RenderTest(st.Test)
	for _, p := range st.Preds {
		s += "[" + RenderAbbrev(p) + "]"
	}
	return s
}

func abbrevPath(p Path) string {
	var sb strings.Builder
	steps := p.Steps
	needSep := false
	if p.Start != nil {
		if f, ok := p.Start.(Filter); ok {
			sb.WriteString(RenderAbbrev(f))
		} else {
			sb.WriteString(abbrevPrimary(p.Start))
		}
		needSep = true
	} else if p.Abs {
		if len(steps) == 0 {
			return "/"
		}
		if isDOS(steps[0]) && len(steps) > 1 {
			sb.WriteString("//")
			steps = steps[1:]
		} else {
			sb.WriteString("/")
		}
	}
	for k := 0; k < len(steps); k++ {
		st := steps[k]
		if needSep {
			if isDOS(st) && k+1 < len(steps) {
				sb.WriteString("//")
				k++
				st = steps[k]
			} else {
				sb.WriteString("/")
			}
		}
		sb.WriteString(abbrevStep(st))
		needSep = true
	}
	return sb.String()
}
