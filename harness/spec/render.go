package spec

import (
	"strconv"
	"strings"
)

// Render prints an AST as an XPath expression with full parenthesisation of
// binary operators (so the structure is unambiguous for the real parser).
func Render(e Expr) string {
	switch e := e.(type) {
	case Num:
		return strconv.FormatFloat(e.V, 'f', -1, 64)
	case Str:
		if strings.Contains(e.V, "'") {
			return `"` + e.V + `"`
		}
		return "'" + e.V + "'"
	case Var:
		if e.Prefix != "" {
			return "$" + e.Prefix + ":" + e.Local
		}
		return "$" + e.Local
	case Neg:
		return "-" + renderOperand(e.X)
	case Bin:
		return renderOperand(e.L) + " " + e.Op + " " + renderOperand(e.R)
	case Call:
		return renderCall(e)
	case Filter:
		s := renderPrimary(e.Primary)
		for _, p := range e.Preds {
			s += "[" + Render(p) + "]"
		}
		return s
	case Path:
		return renderPath(e)
	}
	panic("spec.Render: unknown expression")
}

func renderCall(e Call) string {
	parts := make([]string, len(e.Args))
	for k, a := range e.Args {
		parts[k] = Render(a)
	}
	name := e.Name
	if e.Prefix != "" {
		name = e.Prefix + ":" + name
	}
	return name + "(" + strings.Join(parts, ", ") + ")"
}

func renderPrimary(e Expr) string {
	switch e.(type) {
	case Num, Str, Var, Call:
		return Render(e)
	}
	return "(" + Render(e) + ")"
}

func renderOperand(e Expr) string {
	switch e.(type) {
	case Bin, Neg:
		return "(" + Render(e) + ")"
	}
	return Render(e)
}

func RenderTest(t NodeTest) string {
	switch t.Kind {
	case TNode:
		return "node()"
	case TText:
		return "text()"
	case TComment:
		return "comment()"
	case TPI:
		if t.HasPIArg {
			return "processing-instruction('" + t.PITarget + "')"
		}
		return "processing-instruction()"
	}
	if t.Prefix != "" {
		return t.Prefix + ":" + t.Local
	}
	return t.Local
}

func renderStep(st Step) string {
	if st.Fn != nil {
		return renderCall(*st.Fn)
	}
	s := st.Axis + "::" + RenderTest(st.Test)
	for _, p := range st.Preds {
		s += "[" + Render(p) + "]"
	}
	return s
}

func renderPath(p Path) string {
	var sb strings.Builder
	if p.Start != nil {
		sb.WriteString(renderPrimaryOrFilter(p.Start))
		for _, st := range p.Steps {
			sb.WriteString("/")
			sb.WriteString(renderStep(st))
		}
		return sb.String()
	}
	if p.Abs {
		sb.WriteString("/")
	}
	for k, st := range p.Steps {
		if k > 0 {
			sb.WriteString("/")
		}
		sb.WriteString(renderStep(st))
	}
	return sb.String()
}

func renderPrimaryOrFilter(e Expr) string {
	if f, ok := e.(Filter); ok {
		return Render(f)
	}
	return renderPrimary(e)
}

// Convenience constructors ---------------------------------------------------------

func NameTest(prefix, local string) NodeTest {
	return NodeTest{Kind: TName, Prefix: prefix, Local: local}
}

func S(axis string, t NodeTest, preds ...Expr) Step { return Step{Axis: axis, Test: t, Preds: preds} }

func Rel(steps ...Step) Path { return Path{Steps: steps} }

func AbsP(steps ...Step) Path { return Path{Abs: true, Steps: steps} }

func Fn(name string, args ...Expr) Call { return Call{Name: name, Args: args} }
