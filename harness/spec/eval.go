package spec

import (
	"math"
	"sort"
	"strings"
)

// ---- AST -------------------------------------------------------------------

type Expr interface{}

type Num struct{ V float64 }
type Str struct{ V string }
type Var struct{ Prefix, Local string }
type Call struct {
	Prefix, Name string
	Args         []Expr
}
type Bin struct {
	Op   string // or and = != < <= > >= + - * div mod |
	L, R Expr
}
type Neg struct{ X Expr }

// Filter is PrimaryExpr Predicate*.
type Filter struct {
	Primary Expr
	Preds   []Expr
}

// Path: optional start (a filter expression), absolute flag, steps.
type Path struct {
	Abs   bool
	Start Expr // nil for location paths
	Steps []Step
}

type Step struct {
	Axis  string
	Test  NodeTest
	Preds []Expr
	// FnCall: the documented extension "function call as a step" (P/f()).
	Fn *Call
}

type TestKind int

const (
	TNode TestKind = iota
	TText
	TComment
	TPI
	TName
)

type NodeTest struct {
	Kind     TestKind
	Prefix   string // TName: "" = none; "*" = the *:local extension
	Local    string // TName: "*" = any
	PITarget string
	HasPIArg bool
}

// ---- values ----------------------------------------------------------------

type VT int

const (
	TSet VT = iota
	TNum
	TStr
	TBool
)

type Val struct {
	T   VT
	Set []int // document order, no duplicates
	N   float64
	S   string
	B   bool
}

type Bindings struct {
	NS   map[string]string // prefix -> URI
	Vars map[string]Val    // "{uri}local" -> value
}

type Ctx struct {
	Node      int
	Pos, Size int
}

// Err is raised (as a panic) for dynamic errors: unbound names, wrong types.
type Err struct{ Msg string }

func fail(msg string) { panic(Err{msg}) }

func Key(uri, local string) string {
	if uri == "" {
		return local
	}
	return "{" + uri + "}" + local
}

// ---- conversions -------------------------------------------------------------

func (d *Doc) ToString(v Val) string {
	switch v.T {
	case TSet:
		if len(v.Set) == 0 {
			return ""
		}
		return d.StringValue(v.Set[0])
	case TNum:
		return NumberToString(v.N)
	case TBool:
		if v.B {
			return "true"
		}
		return "false"
	}
	return v.S
}

func (d *Doc) ToNumber(v Val) float64 {
	switch v.T {
	case TNum:
		return v.N
	case TBool:
		if v.B {
			return 1
		}
		return 0
	}
	return Number(d.ToString(v))
}

func (d *Doc) ToBool(v Val) bool {
	switch v.T {
	case TSet:
		return len(v.Set) > 0
	case TNum:
		return v.N == v.N && v.N != 0
	case TBool:
		return v.B
	}
	return len(v.S) > 0
}

// ---- evaluation ----------------------------------------------------------------

func (d *Doc) Eval(e Expr, c Ctx, b *Bindings) Val {
	switch e := e.(type) {
	case Num:
		return Val{T: TNum, N: e.V}
	case Str:
		return Val{T: TStr, S: e.V}
	case Var:
		uri := ""
		if e.Prefix != "" {
			u, ok := b.NS[e.Prefix]
			if !ok {
				fail("unbound prefix " + e.Prefix)
			}
			uri = u
		}
		v, ok := b.Vars[Key(uri, e.Local)]
		if !ok {
			fail("unbound variable " + e.Local)
		}
		return v
	case Neg:
		return Val{T: TNum, N: -d.ToNumber(d.Eval(e.X, c, b))}
	case Bin:
		return d.evalBin(e, c, b)
	case Call:
		return d.evalCall(e, c, b)
	case Filter:
		v := d.Eval(e.Primary, c, b)
		for _, p := range e.Preds {
			if v.T != TSet {
				fail("predicate on non-node-set")
			}
			v = Val{T: TSet, Set: d.filter(v.Set, p, b)} // document order
		}
		return v
	case Path:
		return d.evalPath(e, c, b)
	}
	panic("spec: unknown expression")
}

func (d *Doc) filter(nodes []int, pred Expr, b *Bindings) []int {
	var out []int
	for k, n := range nodes {
		v := d.Eval(pred, Ctx{Node: n, Pos: k + 1, Size: len(nodes)}, b)
		keep := false
		if v.T == TNum {
			keep = v.N == float64(k+1)
		} else {
			keep = d.ToBool(v)
		}
		if keep {
			out = append(out, n)
		}
	}
	return out
}

func (d *Doc) evalPath(p Path, c Ctx, b *Bindings) Val {
	var cur []int
	switch {
	case p.Start != nil:
		v := d.Eval(p.Start, c, b)
		if v.T != TSet {
			fail("path from non-node-set")
		}
		cur = v.Set
	case p.Abs:
		cur = []int{0}
	default:
		cur = []int{c.Node}
	}
	for si, st := range p.Steps {
		if st.Fn != nil {
			// extension: function call as a step — evaluated with the node-set
			// reaching the step as context; must be last
			if si != len(p.Steps)-1 {
				fail("function step not last")
			}
			return d.evalCallOn(*st.Fn, cur, b)
		}
		seen := map[int]bool{}
		var next []int
		for _, n := range cur {
			cand := d.Axis(st.Axis, n)
			var sel []int
			for _, x := range cand {
				if d.Test(st.Test, st.Axis, x, b) {
					sel = append(sel, x)
				}
			}
			for _, pr := range st.Preds {
				sel = d.filter(sel, pr, b) // sel is in axis order: proximity positions
			}
			for _, x := range sel {
				if !seen[x] {
					seen[x] = true
					next = append(next, x)
				}
			}
		}
		sort.Ints(next)
		cur = next
	}
	return Val{T: TSet, Set: cur}
}

// Test applies a node test with the principal node type of the axis.
func (d *Doc) Test(t NodeTest, axis string, x int, b *Bindings) bool {
	n := &d.Nodes[x]
	switch t.Kind {
	case TNode:
		return true
	case TText:
		return n.Kind == Text
	case TComment:
		return n.Kind == Comment
	case TPI:
		if n.Kind != PI {
			return false
		}
		return !t.HasPIArg || n.Local == t.PITarget
	}
	principal := Elem
	switch axis {
	case "attribute":
		principal = Attr
	case "namespace":
		principal = NSNode
	}
	if n.Kind != principal {
		return false
	}
	if principal == NSNode {
		// name tests on the namespace axis are outside the property (library rule)
		return t.Local == "*" && t.Prefix == ""
	}
	if t.Prefix == "*" { // *:local extension
		return n.Local == t.Local
	}
	uri := ""
	if t.Prefix != "" {
		u, ok := b.NS[t.Prefix]
		if !ok {
			fail("unbound prefix " + t.Prefix)
		}
		uri = u
	}
	if t.Local == "*" {
		if t.Prefix == "" {
			return true
		}
		return n.Space == uri
	}
	return n.Space == uri && n.Local == t.Local
}

func (d *Doc) evalBin(e Bin, c Ctx, b *Bindings) Val {
	switch e.Op {
	case "or":
		l := d.ToBool(d.Eval(e.L, c, b))
		r := d.ToBool(d.Eval(e.R, c, b)) // both evaluated: errors surface either way
		return Val{T: TBool, B: l || r}
	case "and":
		l := d.ToBool(d.Eval(e.L, c, b))
		r := d.ToBool(d.Eval(e.R, c, b))
		return Val{T: TBool, B: l && r}
	case "|":
		l, r := d.Eval(e.L, c, b), d.Eval(e.R, c, b)
		if l.T != TSet || r.T != TSet {
			fail("union of non-node-sets")
		}
		seen := map[int]bool{}
		var out []int
		for _, x := range append(append([]int{}, l.Set...), r.Set...) {
			if !seen[x] {
				seen[x] = true
				out = append(out, x)
			}
		}
		sort.Ints(out)
		return Val{T: TSet, Set: out}
	case "=", "!=", "<", "<=", ">", ">=":
		return Val{T: TBool, B: d.Compare(e.Op, d.Eval(e.L, c, b), d.Eval(e.R, c, b))}
	}
	l, r := d.ToNumber(d.Eval(e.L, c, b)), d.ToNumber(d.Eval(e.R, c, b))
	switch e.Op {
	case "+":
		return Val{T: TNum, N: l + r}
	case "-":
		return Val{T: TNum, N: l - r}
	case "*":
		return Val{T: TNum, N: l * r}
	case "div":
		return Val{T: TNum, N: l / r}
	case "mod":
		return Val{T: TNum, N: math.Mod(l, r)}
	}
	panic("spec: unknown operator " + e.Op)
}

func cmpNum(op string, a, b float64) bool {
	switch op {
	case "=":
		return a == b
	case "!=":
		return a != b
	case "<":
		return a < b
	case "<=":
		return a <= b
	case ">":
		return a > b
	}
	return a >= b
}

// Compare is XPath 1.0 section 3.4.
func (d *Doc) Compare(op string, l, r Val) bool {
	eq := op == "=" || op == "!="
	cmpStr := func(a, b string) bool {
		if eq {
			if op == "=" {
				return a == b
			}
			return a != b
		}
		return cmpNum(op, Number(a), Number(b))
	}
	switch {
	case l.T == TSet && r.T == TSet:
		for _, x := range l.Set {
			for _, y := range r.Set {
				if cmpStr(d.StringValue(x), d.StringValue(y)) {
					return true
				}
			}
		}
		return false
	case l.T == TSet || r.T == TSet:
		set, other, setLeft := l, r, true
		if r.T == TSet {
			set, other, setLeft = r, l, false
		}
		if other.T == TBool {
			a, bb := d.ToBool(set), other.B
			if eq {
				if op == "=" {
					return a == bb
				}
				return a != bb
			}
			x, y := d.ToNumber(Val{T: TBool, B: a}), d.ToNumber(other)
			if !setLeft {
				x, y = y, x
			}
			return cmpNum(op, x, y)
		}
		for _, x := range set.Set {
			sv := d.StringValue(x)
			var res bool
			if other.T == TNum || !eq {
				a, bb := Number(sv), d.ToNumber(other)
				if !setLeft {
					a, bb = bb, a
				}
				res = cmpNum(op, a, bb)
			} else {
				a, bb := sv, other.S
				if !setLeft {
					a, bb = bb, a
				}
				res = cmpStr(a, bb)
			}
			if res {
				return true
			}
		}
		return false
	}
	if eq {
		var res bool
		switch {
		case l.T == TBool || r.T == TBool:
			res = d.ToBool(l) == d.ToBool(r)
		case l.T == TNum || r.T == TNum:
			res = d.ToNumber(l) == d.ToNumber(r)
		default:
			res = l.S == r.S
		}
		if op == "!=" {
			// NaN != NaN is true: negation of == is right for IEEE too
			return !res
		}
		return res
	}
	return cmpNum(op, d.ToNumber(l), d.ToNumber(r))
}

// ---- functions -------------------------------------------------------------------

func (d *Doc) evalCall(e Call, c Ctx, b *Bindings) Val {
	args := make([]Val, len(e.Args))
	for k, a := range e.Args {
		args[k] = d.Eval(a, c, b)
	}
	return d.apply(e, args, c, b)
}

// evalCallOn: P/f() — the library evaluates f once with the whole node-set P as
// context result; for the context-dependent builtins with no argument this is
// f applied to the first node of P in document order (== f(P)).
func (d *Doc) evalCallOn(e Call, set []int, b *Bindings) Val {
	args := make([]Val, len(e.Args))
	first := 0
	if len(set) > 0 {
		first = set[0]
	}
	for k, a := range e.Args {
		args[k] = d.Eval(a, Ctx{Node: first, Pos: 1, Size: 1}, b)
	}
	if len(e.Args) == 0 {
		switch e.Name {
		case "string", "number", "local-name", "name", "namespace-uri", "string-length", "normalize-space":
			return d.apply(Call{Name: e.Name}, []Val{{T: TSet, Set: set}}, Ctx{Node: first, Pos: 1, Size: 1}, b)
		}
	}
	return d.apply(e, args, Ctx{Node: first, Pos: 1, Size: 1}, b)
}

func (d *Doc) apply(e Call, args []Val, c Ctx, b *Bindings) Val {
	if e.Prefix != "" {
		fail("no user functions in the reference model")
	}
	need := func(n int) {
		if len(args) != n {
			fail("wrong number of arguments for " + e.Name)
		}
	}
	ctxSet := Val{T: TSet, Set: []int{c.Node}}
	arg0or := func() Val {
		if len(args) == 0 {
			return ctxSet
		}
		need(1)
		return args[0]
	}
	str := func(k int) string { return d.ToString(args[k]) }
	switch e.Name {
	case "last":
		need(0)
		return Val{T: TNum, N: float64(c.Size)}
	case "position":
		need(0)
		return Val{T: TNum, N: float64(c.Pos)}
	case "count":
		need(1)
		if args[0].T != TSet {
			fail("count of non-node-set")
		}
		return Val{T: TNum, N: float64(len(args[0].Set))}
	case "local-name", "namespace-uri", "name":
		v := arg0or()
		if v.T != TSet {
			fail(e.Name + " of non-node-set")
		}
		if len(v.Set) == 0 {
			return Val{T: TStr, S: ""}
		}
		n := &d.Nodes[v.Set[0]]
		local, uri := "", ""
		switch n.Kind {
		case Elem, Attr:
			local, uri = n.Local, n.Space
		case PI:
			local = n.Local
		case NSNode:
			local = n.Prefix
		}
		switch e.Name {
		case "local-name":
			return Val{T: TStr, S: local}
		case "namespace-uri":
			return Val{T: TStr, S: uri}
		}
		return Val{T: TStr, S: Key(uri, local)}
	case "string":
		return Val{T: TStr, S: d.ToString(arg0or())}
	case "concat":
		if len(args) < 2 {
			fail("concat needs two arguments")
		}
		s := ""
		for k := range args {
			s += str(k)
		}
		return Val{T: TStr, S: s}
	case "starts-with":
		need(2)
		return Val{T: TBool, B: strings.HasPrefix(str(0), str(1))}
	case "contains":
		need(2)
		return Val{T: TBool, B: strings.Contains(str(0), str(1))}
	case "substring-before":
		need(2)
		s, t := str(0), str(1)
		k := strings.Index(s, t)
		if k < 0 {
			return Val{T: TStr, S: ""}
		}
		return Val{T: TStr, S: s[:k]}
	case "substring-after":
		need(2)
		s, t := str(0), str(1)
		k := strings.Index(s, t)
		if k < 0 {
			return Val{T: TStr, S: ""}
		}
		return Val{T: TStr, S: s[k+len(t):]}
	case "substring":
		if len(args) != 2 && len(args) != 3 {
			fail("substring arguments")
		}
		p := d.ToNumber(args[1])
		if len(args) == 3 {
			return Val{T: TStr, S: Substring(str(0), p, d.ToNumber(args[2]), true)}
		}
		return Val{T: TStr, S: Substring(str(0), p, 0, false)}
	case "string-length":
		return Val{T: TNum, N: float64(len([]rune(d.ToString(arg0or()))))}
	case "normalize-space":
		return Val{T: TStr, S: NormalizeSpace(d.ToString(arg0or()))}
	case "translate":
		need(3)
		return Val{T: TStr, S: Translate(str(0), str(1), str(2))}
	case "boolean":
		need(1)
		return Val{T: TBool, B: d.ToBool(args[0])}
	case "not":
		need(1)
		return Val{T: TBool, B: !d.ToBool(args[0])}
	case "true":
		need(0)
		return Val{T: TBool, B: true}
	case "false":
		need(0)
		return Val{T: TBool, B: false}
	case "lang":
		need(1)
		return Val{T: TBool, B: d.Lang(c.Node, str(0))}
	case "number":
		return Val{T: TNum, N: d.ToNumber(arg0or())}
	case "sum":
		need(1)
		if args[0].T != TSet {
			fail("sum of non-node-set")
		}
		s := 0.0
		for _, x := range args[0].Set {
			s += Number(d.StringValue(x))
		}
		return Val{T: TNum, N: s}
	case "floor":
		need(1)
		return Val{T: TNum, N: math.Floor(d.ToNumber(args[0]))}
	case "ceiling":
		need(1)
		return Val{T: TNum, N: math.Ceil(d.ToNumber(args[0]))}
	case "round":
		need(1)
		return Val{T: TNum, N: Round(d.ToNumber(args[0]))}
	}
	fail("unknown function " + e.Name)
	return Val{}
}

// Lang is XPath lang(): the nearest xml:lang on the ancestor-or-self elements
// (the parent's for non-elements) equals L or starts with L followed by '-',
// ignoring ASCII case; false if there is none.
func (d *Doc) Lang(node int, l string) bool {
	const xmlNS = "http://www.w3.org/XML/1998/namespace"
	n := node
	if d.Nodes[n].Kind != Elem {
		n = d.Nodes[n].Parent
	}
	for ; n >= 0; n = d.Nodes[n].Parent {
		if d.Nodes[n].Kind != Elem {
			continue
		}
		for _, a := range d.Nodes[n].Attrs {
			at := &d.Nodes[a]
			if at.Local == "lang" && at.Space == xmlNS {
				v := asciiLower(at.Value)
				w := asciiLower(l)
				return v == w || (len(v) > len(w) && v[:len(w)] == w && v[len(w)] == '-')
			}
		}
	}
	return false
}

func asciiLower(s string) string {
	b := []byte(s)
	for i, c := range b {
		if c >= 'A' && c <= 'Z' {
			b[i] = c + 32
		}
	}
	return string(b)
}

// Substring: characters at positions q with round(p) <= q < round(p)+round(l)
// (IEEE comparisons); without l, all q >= round(p).
func Substring(s string, p, l float64, hasLen bool) string {
	rs := []rune(s)
	rp := RoundForCompare(p)
	var end float64
	if hasLen {
		end = rp + RoundForCompare(l)
	}
	out := make([]rune, 0, len(rs))
	for k, r := range rs {
		q := float64(k + 1)
		if q >= rp && (!hasLen || q < end) {
			out = append(out, r)
		}
	}
	return string(out)
}

// NormalizeSpace strips leading/trailing XML whitespace and collapses runs.
func NormalizeSpace(s string) string {
	out := make([]byte, 0, len(s))
	pending := false
	for i := 0; i < len(s); i++ {
		c := s[i]
		if IsXMLSpace(c) {
			pending = len(out) > 0
			continue
		}
		if pending {
			out = append(out, ' ')
			pending = false
		}
		out = append(out, c)
	}
	return string(out)
}

// Translate maps each character of s by its first occurrence in from to the
// character at the same position of to, deleting it when to is shorter.
func Translate(s, from, to string) string {
	f, t := []rune(from), []rune(to)
	out := make([]rune, 0, len(s))
	for _, r := range s {
		idx := -1
		for k, x := range f {
			if x == r {
				idx = k
				break
			}
		}
		switch {
		case idx < 0:
			out = append(out, r)
		case idx < len(t):
			out = append(out, t[idx])
		}
	}
	return string(out)
}
