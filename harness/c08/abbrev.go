package c08

import (
	"github.com/ChrisTrenkamp/xsel"

	"verifharness/c01"
	"verifharness/hx"
	"verifharness/nd"
	"verifharness/spec"
)

// abbrevCases: syntax trees whose abbreviated rendering differs from the
// explicit one ('//', '.', '..', '@', omitted child::).
func abbrevCases() []spec.Expr {
	tNode := spec.NodeTest{Kind: spec.TNode}
	tText := spec.NodeTest{Kind: spec.TText}
	tComment := spec.NodeTest{Kind: spec.TComment}
	tAny := spec.NameTest("", "*")
	tA := spec.NameTest("", "a")
	dos := spec.S("descendant-or-self", tNode)
	var out []spec.Expr
	for _, ax := range spec.Axes {
		for _, t := range []spec.NodeTest{tNode, tAny, tText, tComment} {
			out = append(out, spec.AbsP(dos, spec.S(ax, t)))                       // //axis::test
			out = append(out, spec.Rel(spec.S("self", tNode), dos, spec.S(ax, t))) // .//axis::test
		}
		out = append(out, spec.Rel(spec.S("child", tAny), dos, spec.S(ax, tNode))) // *//axis::node()
	}
	out = append(out,
		spec.AbsP(dos, spec.S("self", tNode)),                          // //.
		spec.AbsP(dos, spec.S("parent", tNode)),                        // //..
		spec.AbsP(dos, spec.S("self", tNode), spec.S("parent", tNode)), // //./..
		spec.Rel(spec.S("parent", tNode), spec.S("attribute", tAny)),   // ../@*
		spec.Rel(spec.S("child", tA), spec.S("attribute", tA)),         // a/@a
		spec.Rel(spec.S("child", tA, spec.Rel(spec.S("attribute", tAny))), spec.S("child", tAny)),
		spec.Fn("count", spec.AbsP(dos, spec.S("self", tNode))),
		spec.Fn("count", spec.AbsP(dos, spec.S("parent", tNode))),
		spec.Rel(spec.S("self", tNode, spec.Rel(spec.S("parent", tNode), spec.S("child", tA)))),
	)
	return out
}

// RunAbbrev: an abbreviated form evaluates like its expansion (both sides the
// real parser and evaluator), on the skeleton document and on small scripts,
// from every context node.
func RunAbbrev() {
	cases := abbrevCases()
	o := hx.GenOpts{MaxEvents: 3, MaxDepth: 2, Attrs: 1, NS: 0, Other: true, TopLevel: true}
	if nd.Tier() > 0 {
		o.MaxEvents, o.NS = 5, 1
	}
	b := hx.GenOrSkeleton(o)
	nd.Assert(b.TieOK, "store-mirrors-script")
	ctx := b.Cursors[nd.Choice(len(b.Doc.Nodes))]
	nd.Reach("abbrev")
	for _, c := range cases {
		full, short := spec.Render(c), spec.RenderAbbrev(c)
		if full == short {
			continue
		}
		g1, g2 := compile(full), compile(short)
		nd.Assert(g1 != nil && g2 != nil, "abbrev.accepts:"+safe(short))
		if g1 == nil || g2 == nil {
			continue
		}
		r1, e1 := xsel.Exec(ctx, g1)
		r2, e2 := xsel.Exec(ctx, g2)
		nd.Assert(sameOutcome(r1, e1, r2, e2), "abbrev.equals-expansion:"+safe(short))
	}
}

type naEntry struct {
	src string
	ast spec.Expr
}

// nonASCIICases: multi-byte characters in literals, element names, variable
// names and after them (token extents are counted in characters, the source
// text in bytes).
func nonASCIICases() []naEntry {
	var out []naEntry
	add := func(e spec.Expr) { out = append(out, naEntry{src: spec.RenderAbbrev(e), ast: e}) }
	r := spec.S("child", spec.NameTest("", "r"))
	for _, c := range []string{"é", "日", "𝒳"} {
		nm := spec.NameTest("", c)
		lit := spec.Str{V: c}
		add(lit)                                                                                                                                // 'é'
		add(spec.Fn("concat", lit, spec.Str{V: "xyz"}))                                                                                         // concat('é','xyz')
		add(spec.Bin{Op: "+", L: spec.Fn("string-length", lit), R: spec.Num{V: 25}})                                                            // string-length('é') + 25
		add(spec.AbsP(r, spec.S("child", nm)))                                                                                                  // /r/é
		add(spec.AbsP(r, spec.S("child", nm), spec.S("child", spec.NameTest("", "a"))))                                                         // /r/é/a
		add(spec.AbsP(dosStep(), spec.S("child", nm, spec.Bin{Op: "=", L: spec.Rel(spec.S("self", spec.NodeTest{Kind: spec.TNode})), R: lit}))) // //é[. = 'é']
		add(spec.AbsP(r, spec.S("child", nm), spec.S("child", spec.NodeTest{Kind: spec.TText})))                                                // /r/é/text()
		add(spec.AbsP(r, spec.S("child", nm), spec.S("following-sibling", spec.NameTest("", "*"))))                                             // /r/é/following-sibling::*
		add(spec.Bin{Op: "=", L: spec.Var{Local: c}, R: spec.Num{V: 7}})                                                                        // $é = 7
		add(spec.Fn("count", spec.AbsP(r, spec.S("attribute", nm))))                                                                            // count(/r/@é)
	}
	return out
}

func dosStep() spec.Step { return spec.S("descendant-or-self", spec.NodeTest{Kind: spec.TNode}) }

// RunNonASCII: queries with multi-byte characters are tokenised and evaluated
// like any other (reference model on the same syntax tree).
func RunNonASCII() {
	cases := nonASCIICases()
	el := func(n string) hx.Event { return hx.Event{N: hx.Elem{Name: n}} }
	end := hx.Event{End: true}
	tx := func(s string) hx.Event { return hx.Event{N: hx.Text{Val: s}} }
	ev := []hx.Event{el("r"), {N: hx.Attr{Name: "é", Val: "1"}}, {N: hx.Attr{Name: "𝒳", Val: "2"}}}
	for _, c := range []string{"é", "日", "𝒳"} {
		ev = append(ev, el(c), tx(c), el("a"), end, end, el("a"), tx("x"+c), end)
	}
	ev = append(ev, end)
	b := hx.FromEvents(ev)
	nd.Assert(b.TieOK, "store-mirrors-script")
	k := nd.Choice(len(cases))
	c := cases[k]
	g := compile(c.src)
	nd.Reach("non-ascii")
	nd.Assert(g != nil, "non-ascii.accepts:"+safe(c.src))
	if g == nil {
		return
	}
	bind := &spec.Bindings{NS: map[string]string{}, Vars: map[string]spec.Val{}}
	var set []xsel.ContextApply
	for _, v := range []string{"é", "日", "𝒳"} {
		bind.Vars[v] = spec.Val{T: spec.TNum, N: 7}
		set = append(set, xsel.WithVariable(v, xsel.Number(7)))
	}
	r, err := xsel.Exec(b.Root, g, set...)
	want := b.Doc.Eval(c.ast, spec.Ctx{Node: 0, Pos: 1, Size: 1}, bind)
	c01.CompareResult(b, r, err, want, false, "non-ascii:"+safe(c.src))
}

// structPairs: an expression and the fully parenthesised reading that the
// XPath 1.0 grammar gives it (predicates bind left to right; a predicate after
// a filter expression applies to the whole filter expression; a step after a
// filter expression continues from its result).
var structPairs = [][2]string{
	{"(//a)[@n][2]", "((//a)[@n])[2]"},
	{"(//*)[2][@n]", "((//*)[2])[@n]"},
	{"(//*)[position() > 1][1]", "((//*)[position() > 1])[1]"},
	{"(//* | //@*)[. > 1][1]", "((//* | //@*)[. > 1])[1]"},
	{"(//*)[@n][last()][1]", "(((//*)[@n])[last()])[1]"},
	{"$v[@n][2]", "($v[@n])[2]"},
	{"$v[2][@n]", "($v[2])[@n]"},
	{"(//*)[2]/*[1]", "((//*)[2])/*[1]"},
	{"(//a)[last()]/@n", "((//a)[last()])/@n"},
	{"//*[@n][2]", "//*[@n][position() = 2]"},
	{"//a[2][@n]", "//a[position() = 2][@n]"},
	{"(//*)[@n][3]/..", "(((//*)[@n])[3])/.."},
	{"id('x')[1][2]", "(id('x')[1])[2]"},
}

// RunStructure: predicates and steps after filter expressions are grouped as
// the grammar says (both sides evaluated by the real code).
func RunStructure() {
	b := hx.Skeleton()
	nd.Assert(b.TieOK, "store-mirrors-script")
	var all xsel.NodeSet
	for _, i := range b.Elements() {
		all = append(all, b.Cursors[i])
	}
	ctx := b.Cursors[nd.Choice(len(b.Doc.Nodes))]
	nd.Reach("structure")
	for _, p := range structPairs {
		g1, g2 := compile(p[0]), compile(p[1])
		nd.Assert(g1 != nil && g2 != nil, "structure.accepts:"+safe(p[0]))
		if g1 == nil || g2 == nil {
			continue
		}
		r1, e1 := xsel.Exec(ctx, g1, xsel.WithVariable("v", all))
		r2, e2 := xsel.Exec(ctx, g2, xsel.WithVariable("v", all))
		nd.Assert(sameOutcome(r1, e1, r2, e2), "structure.groups-like:"+safe(p[0]))
	}
}
