package c08

import (
	"github.com/ChrisTrenkamp/xsel"

	"verifharness/hx"
	"verifharness/nd"
	"verifharness/spec"
)

// abbrevCases: syntax trees whose abbreviated rendering differs from the
// explicit one ('//', '.', '..', '@', omitted child::).
func abbrevCases() []spec.Expr {
	tNode := spec.NodeTest{Kind: spec.TNode}
	tText := spec.NodeTest{Kind: spec.TText}
	tComment := spec.NodeTest{Kind: spec.TComment}
	tAny := spec.NameTest("", "*")
	tA := spec.NameTest("", "a")
	dos := spec.S("descendant-or-self", tNode)
	var out []spec.Expr
	for _, ax := range spec.Axes {
		for _, t := range []spec.NodeTest{tNode, tAny, tText, tComment} {
			out = append(out, spec.AbsP(dos, spec.S(ax, t)))                       // //axis::test
			out = append(out, spec.Rel(spec.S("self", tNode), dos, spec.S(ax, t))) // .//axis::test
		}
		out = append(out, spec.Rel(spec.S("child", tAny), dos, spec.S(ax, tNode))) // *//axis::node()
	}
	out = append(out,
		spec.AbsP(dos, spec.S("self", tNode)),                          // //.
		spec.AbsP(dos, spec.S("parent", tNode)),                        // //..
		spec.AbsP(dos, spec.S("self", tNode), spec.S("parent", tNode)), // //./..
		spec.Rel(spec.S("parent", tNode), spec.S("attribute", tAny)),   // ../@*
		spec.Rel(spec.S("child", tA), spec.S("attribute", tA)),         // a/@a
		spec.Rel(spec.S("child", tA, spec.Rel(spec.S("attribute", tAny))), spec.S("child", tAny)),
		spec.Fn("count", spec.AbsP(dos, spec.S("self", tNode))),
		spec.Fn("count", spec.AbsP(dos, spec.S("parent", tNode))),
		spec.Rel(spec.S("self", tNode, spec.Rel(spec.S("parent", tNode), spec.S("child", tA)))),
	)
	return out
}

// RunAbbrev: an abbreviated form evaluates like its expansion (both sides the
// real parser and evaluator), on the skeleton document and on small scripts,
// from every context node.
func RunAbbrev() {
	cases := abbrevCases()
	o := hx.GenOpts{MaxEvents: 3, MaxDepth: 2, Attrs: 1, NS: 0, Other: true, TopLevel: true}
	if nd.Tier() > 0 {
		o.MaxEvents, o.NS = 5, 1
	}
	b := hx.GenOrSkeleton(o)
	nd.Assert(b.TieOK, "store-mirrors-script")
	ctx := b.Cursors[nd.Choice(len(b.Doc.Nodes))]
	nd.Reach("abbrev")
	for _, c := range cases {
		full, short := spec.Render(c), spec.RenderAbbrev(c)
		if full == short {
			continue
		}
		g1, g2 := compile(full), compile(short)
		nd.Assert(g1 != nil && g2 != nil, "abbrev.accepts:"+safe(short))
		if g1 == nil || g2 == nil {
			continue
		}
		r1, e1 := xsel.Exec(ctx, g1)
		r2, e2 := xsel.Exec(ctx, g2)
		nd.Assert(sameOutcome(r1, e1, r2, e2), "abbrev.equals-expansion:"+safe(short))
	}
}
