// Package c08: every XPath 1.0 expression parses to the tree its grammar
// defines; others error (property C08).
package c08

import (
	"github.com/ChrisTrenkamp/xsel"

	"verifharness/hx"
	"verifharness/nd"
)

type binop struct {
	s    string
	prec int
}

// XPath 1.0 precedence: or < and < equality < relational < additive <
// multiplicative < unary(7) < union.
var binops = []binop{
	{"or", 1}, {"and", 2}, {"=", 3}, {"!=", 3}, {"<", 4}, {"<=", 4}, {">", 4}, {">=", 4},
	{"+", 5}, {"-", 5}, {"*", 6}, {"div", 6}, {"mod", 6}, {"|", 8},
}

func Setup() {}

func compile(s string) *xsel.Grammar {
	v := nd.Memo("expr:"+s, func() any {
		g, err := xsel.BuildExpr(s)
		if err != nil {
			return (*xsel.Grammar)(nil)
		}
		return &g
	})
	return v.(*xsel.Grammar)
}

// ws renders the token sequence with a whitespace style: 0 single blanks,
// 1 no whitespace where the lexical rules allow it, 2 tabs and newlines.
func join(toks []string, style int) string {
	out := ""
	for k, t := range toks {
		if k > 0 {
			switch style {
			case 0:
				out += " "
			case 2:
				out += "\t\r\n "
			default:
				// a blank is only needed between two name-like tokens
				prev := toks[k-1]
				if nameLike(prev[len(prev)-1]) && nameLike(t[0]) {
					out += " "
				}
			}
		}
		out += t
	}
	return out
}

// safe makes an expression usable inside an assertion id (one line, no blanks).
func safe(s string) string {
	out := ""
	for i := 0; i < len(s); i++ {
		switch s[i] {
		case ' ':
			out += "_"
		case '\t':
			out += "\\t"
		case '\r':
			out += "\\r"
		case '\n':
			out += "\\n"
		case ',':
			out += ";"
		default:
			out += string(s[i])
		}
	}
	return out
}

func nameLike(c byte) bool {
	return c >= 'a' && c <= 'z' || c >= '0' && c <= '9' || c == '$' || c == '-' || c == '.'
}

type leaf struct {
	impl xsel.Result
}

// pickLeaf: a number from {2, 3, 7} (concrete: 64-bit FP multiplication and
// division make solver-chosen doubles too slow here, see DESIGN), a symbolic
// boolean, or a node-set of 0..1 nodes.
func pickLeaf(b *hx.Built) xsel.Result {
	opts := 6
	if nd.Tier() == 0 {
		opts = 4 // quick: 2, 3, 7, symbolic boolean
	}
	switch nd.Choice(opts) {
	case 0:
		return xsel.Number(2)
	case 1:
		return xsel.Number(3)
	case 2:
		return xsel.Number(7)
	case 3:
		return xsel.Bool(nd.Bool())
	case 4:
		return xsel.NodeSet{}
	}
	return xsel.NodeSet{b.Cursors[1]}
}

// sameOutcome: both evaluations fail, or give identical results.
func sameOutcome(r1 xsel.Result, e1 error, r2 xsel.Result, e2 error) bool {
	if e1 != nil || e2 != nil {
		return e1 != nil && e2 != nil
	}
	switch x := r1.(type) {
	case xsel.Number:
		y, ok := r2.(xsel.Number)
		return ok && nd.SameF64(float64(x), float64(y))
	case xsel.Bool:
		y, ok := r2.(xsel.Bool)
		return ok && x == y
	case xsel.String:
		y, ok := r2.(xsel.String)
		return ok && x == y
	case xsel.NodeSet:
		y, ok := r2.(xsel.NodeSet)
		if !ok || len(x) != len(y) {
			return false
		}
		for k := range x {
			if x[k] != y[k] {
				return false
			}
		}
		return true
	}
	return false
}

// RunPrecedence: `$a op1 $b op2 $c` (and the unary-minus forms) evaluates like
// its fully parenthesised rendering under the XPath 1.0 grammar, for all leaf
// values. Both sides are the real parser and evaluator.
func RunPrecedence() {
	doc, _ := hx.Build([]hx.Event{{N: hx.Elem{Name: "r"}}, {N: hx.Text{Val: "1"}}, {End: true}})
	b := &hx.Built{Root: doc, Cursors: []xsel.Cursor{doc, doc.Children()[0]}}
	// quick: single blanks and CR/LF/tab runs; thorough: also no whitespace
	style := []int{0, 2, 1}[nd.Choice(2+nd.Tier())]
	var plain, paren []string
	form := nd.Choice(3)
	o1 := binops[nd.Choice(len(binops))]
	switch form {
	case 0: // $a op1 $b op2 $c
		o2 := binops[nd.Choice(len(binops))]
		plain = []string{"$a", o1.s, "$b", o2.s, "$c"}
		if o2.prec > o1.prec {
			paren = []string{"$a", o1.s, "(", "$b", o2.s, "$c", ")"}
		} else {
			paren = []string{"(", "$a", o1.s, "$b", ")", o2.s, "$c"}
		}
	case 1: // - $a op1 $b
		plain = []string{"-", "$a", o1.s, "$b"}
		if o1.prec > 7 {
			paren = []string{"-", "(", "$a", o1.s, "$b", ")"}
		} else {
			paren = []string{"(", "-", "$a", ")", o1.s, "$b"}
		}
	case 2: // $a op1 - $b    (not for '|': a union operand cannot be a unary expression)
		if o1.s == "|" {
			nd.Assume(false)
		}
		plain = []string{"$a", o1.s, "-", "$b"}
		paren = []string{"$a", o1.s, "(", "-", "$b", ")"}
	}
	ps, qs := join(plain, style), join(paren, style)
	g1, g2 := compile(ps), compile(qs)
	nd.Reach("precedence")
	nd.Assert(g1 != nil, "precedence.accepts:"+safe(ps))
	nd.Assert(g2 != nil, "precedence.accepts-parenthesised:"+safe(qs))
	if g1 == nil || g2 == nil {
		return
	}
	set := []xsel.ContextApply{xsel.WithVariable("a", pickLeaf(b)), xsel.WithVariable("b", pickLeaf(b)), xsel.WithVariable("c", pickLeaf(b))}
	r1, e1 := xsel.Exec(doc, g1, set...)
	r2, e2 := xsel.Exec(doc, g2, set...)
	nd.Assert(sameOutcome(r1, e1, r2, e2), "precedence.structure:"+safe(ps))
}
