package c08

import (
	"github.com/ChrisTrenkamp/xsel"

	"verifharness/nd"
	"verifharness/spec"
)

// the 28-character alphabet of the accept/reject harness (all four XML
// whitespace characters included)
const alphabet = "adiv1./*()[]@:$'\"\\-|=<!, \t\r\n"

func inAlphabet(b byte) bool {
	r := false
	for i := 0; i < len(alphabet); i++ {
		r = nd.Or(r, b == alphabet[i])
	}
	return r
}

func isWS(c byte) bool { return c == ' ' || c == '\t' || c == '\r' || c == '\n' }

// regions of the recorded findings, as plain scans of the string
func hasTrailingDotNumber(s string) bool {
	for i := 0; i+1 < len(s); i++ {
		if s[i] >= '0' && s[i] <= '9' && s[i+1] == '.' && (i+2 >= len(s) || !(s[i+2] >= '0' && s[i+2] <= '9')) {
			return true
		}
	}
	return false
}

func hasSpaceNextToColon(s string) bool {
	for i := 0; i < len(s); i++ {
		if s[i] == ':' && ((i > 0 && isWS(s[i-1])) || (i+1 < len(s) && isWS(s[i+1]))) {
			return true
		}
	}
	return false
}

func hasBackslash(s string) bool {
	for i := 0; i < len(s); i++ {
		if s[i] == '\\' {
			return true
		}
	}
	return false
}

// hasSplitNumber: a '.' and a digit separated by whitespace only (xsel's
// grammar builds numbers from separate tokens)
func hasSplitNumber(s string) bool {
	isDigit := func(c byte) bool { return c >= '0' && c <= '9' }
	for i := 0; i < len(s); i++ {
		if s[i] != '.' {
			continue
		}
		j := i + 1
		for j < len(s) && isWS(s[j]) {
			j++
		}
		if j > i+1 && j < len(s) && isDigit(s[j]) {
			return true
		}
		k := i - 1
		for k >= 0 && isWS(s[k]) {
			k--
		}
		if k < i-1 && k >= 0 && isDigit(s[k]) {
			return true
		}
	}
	return false
}

// hasStarAfterSlashWithOperand: '/' then '*' then something that can start an
// operand (xsel reads the '*' as a multiplication of the root node-set)
func hasStarAfterSlashWithOperand(s string) bool {
	for i := 0; i < len(s); i++ {
		if s[i] != '/' {
			continue
		}
		j := i + 1
		for j < len(s) && isWS(s[j]) {
			j++
		}
		if j >= len(s) || s[j] != '*' {
			continue
		}
		j++
		for j < len(s) && isWS(s[j]) {
			j++
		}
		if j >= len(s) {
			continue
		}
		switch c := s[j]; {
		case c >= 'a' && c <= 'z', c >= '0' && c <= '9', c == '.', c == '/', c == '*', c == '"', c == '\'', c == '$', c == '@', c == '-', c == '(':
			return true
		}
	}
	return false
}

// hasOperatorWord: contains div, mod, and, or as a maximal run of name characters
func hasOperatorWord(s string) bool {
	isStart := func(c byte) bool { return c >= 'a' && c <= 'z' || c == '_' }
	isName := func(c byte) bool {
		return isStart(c) || c >= '0' && c <= '9' || c == '-' || c == '.'
	}
	for i := 0; i < len(s); {
		if !isStart(s[i]) {
			i++
			continue
		}
		j := i
		for j < len(s) && isName(s[j]) {
			j++
		}
		w := s[i:j]
		if w == "div" || w == "mod" || w == "and" || w == "or" {
			return true
		}
		i = j
	}
	return false
}

// RunAcceptReject: BuildExpr accepts exactly the strings the XPath 1.0 grammar
// (with the documented extensions) derives; every byte of the string is a
// solver variable over the 26-character alphabet.
func RunAcceptReject() {
	max := 3
	if nd.Tier() > 0 {
		max = 4
	}
	n := nd.Choice(max + 1)
	s := nd.Str(n)
	for i := 0; i < len(s); i++ {
		nd.Assume(inAlphabet(s[i]))
	}
	nd.Known("C08.number-trailing-dot", hasTrailingDotNumber(s))
	nd.Known("C08.whitespace-inside-qname", hasSpaceNextToColon(s))
	nd.Known("C08.backslash-in-literal", hasBackslash(s))
	nd.Known("C08.operator-name-as-name", hasOperatorWord(s))
	nd.Known("C08.whitespace-inside-number", hasSplitNumber(s))
	nd.Known("C08.star-after-slash-as-multiply", hasStarAfterSlashWithOperand(s))
	g, err := xsel.BuildExpr(s)
	nd.Reach("accept-reject")
	want := spec.Accepts(s)
	if want {
		nd.Reach("accept-reject.valid")
		nd.Assert(err == nil, "syntax.accepts-valid-expression")
	} else {
		nd.Reach("accept-reject.invalid")
		nd.Assert(err != nil, "syntax.rejects-invalid-string")
	}
	nd.Assert(err != nil || g.BSR != nil, "syntax.no-empty-result")
}
