package c08

import (
	"github.com/ChrisTrenkamp/xsel"

	"verifharness/c01"
	"verifharness/hx"
	"verifharness/nd"
	"verifharness/spec"
)

type nameCase struct {
	src string
	ast spec.Expr
}

func nt(local string) spec.NodeTest { return spec.NameTest("", local) }

var (
	tNodeT    = spec.NodeTest{Kind: spec.TNode}
	tTextT    = spec.NodeTest{Kind: spec.TText}
	tCommentT = spec.NodeTest{Kind: spec.TComment}
)

func child(n string) spec.Step { return spec.S("child", nt(n)) }

// strings whose tokens spell axis names, node types or contain '-', '.', digits,
// with the structure the XPath 1.0 lexical rules give them
var nameCases = []nameCase{
	{"child", spec.Rel(child("child"))},
	{"/r/self", spec.AbsP(child("r"), child("self"))},
	{"/r/text", spec.AbsP(child("r"), child("text"))},
	{"/r/text/text()", spec.AbsP(child("r"), child("text"), spec.S("child", tTextT))},
	{"/r/node/comment", spec.AbsP(child("r"), child("node"), child("comment"))},
	{"/r/node/comment()", spec.AbsP(child("r"), child("node"), spec.S("child", tCommentT))},
	{"/r/child::child", spec.AbsP(child("r"), child("child"))},
	{"/r/child :: child", spec.AbsP(child("r"), child("child"))},
	{"/r/self::r", spec.AbsP(child("r"), spec.S("self", nt("r")))},
	{"/r/self/self::self", spec.AbsP(child("r"), child("self"), spec.S("self", nt("self")))},
	{"/r/descendant::node", spec.AbsP(child("r"), spec.S("descendant", nt("node")))},
	{"/r/descendant::node()", spec.AbsP(child("r"), spec.S("descendant", tNodeT))},
	{"/r/ancestor-or-self", spec.AbsP(child("r"), child("ancestor-or-self"))},
	{"/r/processing-instruction", spec.AbsP(child("r"), child("processing-instruction"))},
	{"/r/a-b", spec.AbsP(child("r"), child("a-b"))},
	{"/r/a - /r/b", spec.Bin{Op: "-", L: spec.AbsP(child("r"), child("a")), R: spec.AbsP(child("r"), child("b"))}},
	{"/r/a -/r/b", spec.Bin{Op: "-", L: spec.AbsP(child("r"), child("a")), R: spec.AbsP(child("r"), child("b"))}},
	{"/r/a.b", spec.AbsP(child("r"), child("a.b"))},
	{"/r/a1", spec.AbsP(child("r"), child("a1"))},
	{"/r/a-1", spec.AbsP(child("r"), child("a-1"))},
	{"/r/a - 1", spec.Bin{Op: "-", L: spec.AbsP(child("r"), child("a")), R: spec.Num{V: 1}}},
	{"/r/@child", spec.AbsP(child("r"), spec.S("attribute", nt("child")))},
	{"/r/@text", spec.AbsP(child("r"), spec.S("attribute", nt("text")))},
	{"/r/attribute::attribute", spec.AbsP(child("r"), spec.S("attribute", nt("attribute")))},
	{"count(/r/*)", spec.Fn("count", spec.AbsP(child("r"), spec.S("child", spec.NameTest("", "*"))))},
	{"2*3", spec.Bin{Op: "*", L: spec.Num{V: 2}, R: spec.Num{V: 3}}},
	{"count(/r/*)*2", spec.Bin{Op: "*", L: spec.Fn("count", spec.AbsP(child("r"), spec.S("child", spec.NameTest("", "*")))), R: spec.Num{V: 2}}},
	{"/r/* [1]", spec.AbsP(child("r"), spec.S("child", spec.NameTest("", "*"), spec.Num{V: 1}))},
	{"/r/a mod 2", spec.Bin{Op: "mod", L: spec.AbsP(child("r"), child("a")), R: spec.Num{V: 2}}},
	{"/r/a div 2", spec.Bin{Op: "div", L: spec.AbsP(child("r"), child("a")), R: spec.Num{V: 2}}},
	{"/r/child and /r/self", spec.Bin{Op: "and", L: spec.AbsP(child("r"), child("child")), R: spec.AbsP(child("r"), child("self"))}},
	{"/r/nosuch or /r/text", spec.Bin{Op: "or", L: spec.AbsP(child("r"), child("nosuch")), R: spec.AbsP(child("r"), child("text"))}},
	{"/r/divide", spec.AbsP(child("r"), child("divide"))},
	{"/r/order", spec.AbsP(child("r"), child("order"))},
}

// RunNames: names that spell axis names, node types, or contain '-', '.' and
// digits are tokenised as XPath 1.0 prescribes; the query then evaluates like
// the explicit syntax tree in the reference model.
func RunNames() {
	d := spec.NewDoc()
	var ev []hx.Event
	r := d.Add(0, spec.Node{Kind: spec.Elem, Local: "r"})
	ev = append(ev, hx.Event{N: hx.Elem{Name: "r"}})
	for _, a := range []string{"child", "text", "attribute"} {
		d.Add(r, spec.Node{Kind: spec.Attr, Local: a, Value: "v"})
		ev = append(ev, hx.Event{N: hx.Attr{Name: a, Val: "v"}})
	}
	for k, n := range []string{"child", "self", "text", "node", "ancestor-or-self", "processing-instruction", "a-b", "a", "b", "a.b", "a1", "a-1", "divide", "order"} {
		e := d.Add(r, spec.Node{Kind: spec.Elem, Local: n})
		ev = append(ev, hx.Event{N: hx.Elem{Name: n}})
		switch n {
		case "text":
			d.Add(e, spec.Node{Kind: spec.Text, Value: "t"})
			ev = append(ev, hx.Event{N: hx.Text{Val: "t"}})
		case "node":
			d.Add(e, spec.Node{Kind: spec.Comment, Value: "c"})
			ev = append(ev, hx.Event{N: hx.Comment{Val: "c"}})
			d.Add(e, spec.Node{Kind: spec.Elem, Local: "comment"})
			ev = append(ev, hx.Event{N: hx.Elem{Name: "comment"}}, hx.Event{End: true})
		case "a", "b":
			v := []string{"7", "3"}[k%2]
			d.Add(e, spec.Node{Kind: spec.Text, Value: v})
			ev = append(ev, hx.Event{N: hx.Text{Val: v}})
		case "self":
			d.Add(e, spec.Node{Kind: spec.Elem, Local: "self"})
			ev = append(ev, hx.Event{N: hx.Elem{Name: "self"}}, hx.Event{End: true})
		}
		ev = append(ev, hx.Event{End: true})
	}
	ev = append(ev, hx.Event{End: true})
	b := &hx.Built{Doc: d, Events: ev}
	b.Root, b.Err = hx.Build(ev)
	b.Tie()
	nd.Assert(b.TieOK, "store-mirrors-script")
	c := nameCases[nd.Choice(len(nameCases))]
	g := compile(c.src)
	nd.Reach("names")
	nd.Assert(g != nil, "names.accepts:"+c.src)
	if g == nil {
		return
	}
	ctx := nd.Choice(2) // from the root and from <r>
	res, err := xsel.Exec(b.Cursors[ctx], g)
	bind := &spec.Bindings{NS: map[string]string{}, Vars: map[string]spec.Val{}}
	want := d.Eval(c.ast, spec.Ctx{Node: ctx, Pos: 1, Size: 1}, bind)
	c01.CompareResult(b, res, err, want, false, c.src)
}
