// Package c17: ReadHtml mirrors the HTML5 parse tree without namespaces
// (property C17). html.Parse is a stub returning a DOM of the shape the HTML5
// tree builder guarantees; natively the DOM is rendered and the real builder
// runs.
package c17

import (
	"strings"

	"github.com/ChrisTrenkamp/xsel"
	"github.com/ChrisTrenkamp/xsel/node"
	"golang.org/x/net/html"

	"verifharness/hx"
	"verifharness/nd"
)

func Setup() {}

// names with no, one and two colons: the prefix ends at the FIRST colon
var tags = []string{"div", "span", "x:b", "br", "x:y:z"}
var keys = []string{"a", "xmlns", "xmlns:x", "x:a", "a:b:c"}

func symText() string {
	b := nd.Byte()
	nd.Assume(nd.And(b >= 'a', b <= 'z'))
	return string([]byte{b})
}

func elem(tag string) *html.Node { return &html.Node{Type: html.ElementNode, Data: tag} }

// genBody adds <= budget nodes below parent (depth-limited), never two
// adjacent text nodes, nothing inside void elements.
func genBody(parent *html.Node, budget *int, depth int) {
	for *budget > 0 {
		const (
			cStop = iota
			cElem
			cText
			cComment
		)
		menu := []int{cStop, cComment}
		if depth < 3 {
			menu = append(menu, cElem)
		}
		if parent.LastChild == nil || parent.LastChild.Type != html.TextNode {
			menu = append(menu, cText)
		}
		c := menu[nd.Choice(len(menu))]
		if c == cStop {
			return
		}
		*budget--
		switch c {
		case cElem:
			ti := nd.Choice(len(tags))
			e := elem(tags[ti])
			switch nd.Choice(4) {
			case 3:
				// distinct keys whose local names coincide once prefixes are stripped
				e.Attr = append(e.Attr, html.Attribute{Key: "href", Val: symText()}, html.Attribute{Key: "xlink:href", Val: symText()})
			case 1:
				// the key is paired with the tag
				ki := ti
				e.Attr = append(e.Attr, html.Attribute{Key: keys[ki], Val: symText()})
			case 2:
				e.Attr = append(e.Attr, html.Attribute{Key: "a", Val: symText()}, html.Attribute{Key: "xmlns:x", Val: "u"})
			}
			parent.AppendChild(e)
			if e.Data != "br" {
				genBody(e, budget, depth+1)
			}
		case cText:
			parent.AppendChild(&html.Node{Type: html.TextNode, Data: symText()})
		case cComment:
			parent.AppendChild(&html.Node{Type: html.CommentNode, Data: "c"})
		}
	}
}

func genDoc(max int) *html.Node {
	doc := &html.Node{Type: html.DocumentNode}
	doc.AppendChild(&html.Node{Type: html.DoctypeNode, Data: "html"})
	if nd.Choice(2) == 1 {
		doc.AppendChild(&html.Node{Type: html.CommentNode, Data: "c"})
	}
	h := elem("html")
	doc.AppendChild(h)
	head, body := elem("head"), elem("body")
	h.AppendChild(head)
	h.AppendChild(body)
	budget := max
	genBody(body, &budget, 1)
	if nd.Choice(2) == 1 {
		doc.AppendChild(&html.Node{Type: html.CommentNode, Data: "c"})
	}
	return doc
}

func local(name string) string {
	if k := strings.IndexByte(name, ':'); k >= 0 {
		return name[k+1:]
	}
	return name
}

// same: the cursor c mirrors DOM node n (independent recursive walk).
func same(c xsel.Cursor, n *html.Node) bool {
	var kids []*html.Node
	for k := n.FirstChild; k != nil; k = k.NextSibling {
		if k.Type == html.DoctypeNode {
			continue
		}
		kids = append(kids, k)
	}
	switch n.Type {
	case html.ElementNode:
		e, ok := c.Node().(node.Element)
		if !ok || e.Local() != local(n.Data) || e.Space() != "" {
			return false
		}
		var want []html.Attribute
		for _, a := range n.Attr {
			if a.Key == "xmlns" || strings.HasPrefix(a.Key, "xmlns:") {
				continue
			}
			want = append(want, a)
		}
		at := c.Attributes()
		if len(at) != len(want) {
			return false
		}
		for k, a := range want {
			x, ok := at[k].Node().(node.Attribute)
			if !ok || x.Local() != local(a.Key) || x.Space() != "" || x.AttributeValue() != a.Val {
				return false
			}
		}
	case html.TextNode:
		t, ok := c.Node().(node.CharData)
		if !ok || t.CharDataValue() != n.Data {
			return false
		}
	case html.CommentNode:
		t, ok := c.Node().(node.Comment)
		if !ok || t.CommentValue() != n.Data {
			return false
		}
	}
	if len(c.Namespaces()) != 0 {
		return false
	}
	ch := c.Children()
	if len(ch) != len(kids) {
		return false
	}
	for k := range kids {
		if !same(ch[k], kids[k]) {
			return false
		}
	}
	return true
}

// RunHTML: every DOM within the bound.
func RunHTML() {
	max := 3
	if nd.Tier() > 0 {
		max = 4
	}
	doc := genDoc(max)
	root, err := xsel.ReadHtml(&hx.HTMLScript{Doc: doc})
	nd.Reach("html")
	nd.Assert(err == nil, "html.noerr")
	nd.Assert(root != nil && same(root, doc), "html.mirrors-dom")
}

func sameDOM(a, b *html.Node) bool {
	if a.Type != b.Type || a.Data != b.Data || len(a.Attr) != len(b.Attr) {
		return false
	}
	x, y := a.FirstChild, b.FirstChild
	for x != nil && y != nil {
		if !sameDOM(x, y) {
			return false
		}
		x, y = x.NextSibling, y.NextSibling
	}
	return x == nil && y == nil
}

func letter() string {
	b := nd.Byte()
	nd.Assume(nd.Or(nd.And(b >= 'a', b <= 'z'), nd.And(b >= '0', b <= '9')))
	return string([]byte{b})
}

// RunSoup: tag soup for which the HTML5 tree builder leaves ADJACENT text
// nodes (text foster-parented inside a template in table mode, split by an
// ignored end tag) and foster-parents content in front of a table. The DOMs
// below are what x/net/html builds for the given source (checked natively on
// every replay); the cursor tree must mirror them node for node.
func RunSoup() {
	x, y := letter(), letter()
	doc := &html.Node{Type: html.DocumentNode}
	doc.AppendChild(&html.Node{Type: html.DoctypeNode, Data: "html"})
	h := elem("html")
	doc.AppendChild(h)
	head, body := elem("head"), elem("body")
	h.AppendChild(head)
	h.AppendChild(body)
	text := ""
	switch nd.Choice(2) {
	case 0:
		table, tmpl := elem("table"), elem("template")
		body.AppendChild(table)
		table.AppendChild(tmpl)
		tmpl.AppendChild(elem("tr"))
		tmpl.AppendChild(&html.Node{Type: html.TextNode, Data: x})
		tmpl.AppendChild(&html.Node{Type: html.TextNode, Data: y})
		text = "<!DOCTYPE html><body><table><template><tr>" + x + "</em>" + y + "</template></table>"
	case 1:
		body.AppendChild(&html.Node{Type: html.TextNode, Data: x})
		b := elem("b")
		body.AppendChild(b)
		b.AppendChild(&html.Node{Type: html.TextNode, Data: y})
		body.AppendChild(elem("table"))
		text = "<!DOCTYPE html><table>" + x + "<b>" + y + "</table>"
	}
	if !nd.Symbolic() {
		real, err := html.Parse(strings.NewReader(text))
		nd.Assert(err == nil && sameDOM(real, doc), "soup.scripted-dom-is-what-the-tree-builder-yields")
	}
	root, err := xsel.ReadHtml(&hx.HTMLScript{Doc: doc, Text: text})
	nd.Reach("soup")
	nd.Assert(err == nil, "soup.noerr")
	nd.Assert(root != nil && same(root, doc), "soup.mirrors-dom")
}
