// Package c11: names resolve through the query's bindings, never through
// document prefixes (property C11).
package c11

import (
	"github.com/ChrisTrenkamp/xsel"

	"verifharness/c01"
	"verifharness/hx"
	"verifharness/nd"
	"verifharness/spec"
)

type entry struct {
	src, swapped string
	ast          spec.Expr
	g, gs        *xsel.Grammar
}

var (
	menu                                     []entry
	varX, varPX, varQX, varUnbound           *xsel.Grammar
	fnCount, fnPF, fnPred, fnUnknown, fnLazy *xsel.Grammar
	fnString, fnPosition, fnUnboundPfx       *xsel.Grammar
)

func build(s string) *xsel.Grammar {
	g := xsel.MustBuildExpr(s)
	return &g
}

func swapPQ(s string) string {
	b := []byte(s)
	for i := 0; i+1 < len(b); i++ {
		if b[i+1] == ':' && (i == 0 || !isNameChar(b[i-1])) {
			if b[i] == 'p' {
				b[i] = 'q'
			} else if b[i] == 'q' {
				b[i] = 'p'
			}
		}
	}
	return string(b)
}

func isNameChar(c byte) bool {
	return c >= 'a' && c <= 'z' || c >= 'A' && c <= 'Z' || c >= '0' && c <= '9' || c == '-' || c == '_' || c == '.'
}

func add(ast spec.Expr) {
	src := spec.Render(ast)
	sw := swapPQ(src)
	menu = append(menu, entry{src: src, swapped: sw, ast: ast, g: build(src), gs: build(sw)})
}

var (
	tNode = spec.NodeTest{Kind: spec.TNode}
	dos   = spec.S("descendant-or-self", tNode)
)

func Setup() {
	menu = nil
	nt := spec.NameTest
	add(spec.AbsP(dos, spec.S("child", nt("p", "a"))))
	add(spec.AbsP(dos, spec.S("child", nt("p", "*"))))
	add(spec.AbsP(dos, spec.S("child", nt("*", "a"))))
	add(spec.AbsP(dos, spec.S("child", nt("", "a"))))
	add(spec.AbsP(dos, spec.S("child", nt("", "*"))))
	add(spec.AbsP(dos, spec.S("attribute", nt("p", "a"))))
	add(spec.AbsP(dos, spec.S("attribute", nt("q", "*"))))
	add(spec.AbsP(dos, spec.S("attribute", nt("", "a"))))
	add(spec.AbsP(dos, spec.S("attribute", nt("*", "b"))))
	add(spec.AbsP(spec.S("child", nt("p", "a")), spec.S("child", nt("q", "b"))))
	add(spec.AbsP(dos, spec.S("child", nt("q", "a"), spec.Rel(spec.S("attribute", nt("p", "*"))))))
	add(spec.Bin{Op: "|", L: spec.AbsP(dos, spec.S("child", nt("p", "*"))), R: spec.AbsP(dos, spec.S("child", nt("q", "*")))})
	add(spec.Fn("count", spec.AbsP(dos, spec.S("child", nt("q", "b")))))
	varX = build("$x")
	varPX = build("$p:x")
	varQX = build("$q:x")
	varUnbound = build("$nosuch")
	fnCount = build("count(//*)")
	fnPF = build("p:f(1 + 1, 'x', //*)")
	fnPred = build("//*[p:f()]")
	fnUnknown = build("nosuch(1)")
	fnLazy = build("//nosuch-element[p:g()]")
	fnString = build("string(1)")
	fnPosition = build("//*[position()]")
	fnUnboundPfx = build("z:f()")
	setupShadow()
}

func genOpts() hx.GenOpts {
	o := hx.GenOpts{MaxEvents: 4, MaxDepth: 2, Attrs: 1, NS: 1, Other: false, SymNames: true, SymSpace: true}
	if nd.Tier() > 0 {
		o.MaxEvents, o.MaxDepth = 5, 3
	}
	return o
}

func contains(s, sub string) bool {
	for i := 0; i+len(sub) <= len(s); i++ {
		if s[i:i+len(sub)] == sub && (i == 0 || !isNameChar(s[i-1])) {
			return true
		}
	}
	return false
}

func symURI() string {
	b := nd.Byte()
	nd.Assume(nd.Or(b == 'u', b == 'v'))
	return string([]byte{b})
}

func specEvalAt(d *spec.Doc, e spec.Expr, ctx int, b *spec.Bindings) (v spec.Val, failed bool) {
	defer func() {
		if r := recover(); r != nil {
			if _, ok := r.(spec.Err); ok {
				failed = true
				return
			}
			panic(r)
		}
	}()
	v = d.Eval(e, spec.Ctx{Node: ctx, Pos: 1, Size: 1}, b)
	return
}

// RunNameTests: prefixed/unprefixed name tests under symbolic bindings, and
// invariance under consistent renaming of the query's prefixes.
func RunNameTests() {
	b := hx.Gen(genOpts())
	nd.Assert(b.TieOK, "store-mirrors-script")
	bind := &spec.Bindings{NS: map[string]string{}, Vars: map[string]spec.Val{}}
	var set, swapped []xsel.ContextApply
	for _, pfx := range []string{"p", "q"} {
		if nd.Choice(2) == 1 {
			u := symURI()
			bind.NS[pfx] = u
			set = append(set, xsel.WithNS(pfx, u))
			other := "q"
			if pfx == "q" {
				other = "p"
			}
			swapped = append(swapped, xsel.WithNS(other, u))
		}
	}
	// a binding whose prefix is spelled like a local name used in the query and
	// in the document: it must not influence unprefixed name tests
	if nd.Choice(2) == 1 {
		u := symURI()
		bind.NS["a"] = u
		set = append(set, xsel.WithNS("a", u))
		swapped = append(swapped, xsel.WithNS("a", u))
	}
	m := &menu[nd.Choice(len(menu))]
	nd.Reach("name-tests")
	r, err := xsel.Exec(b.Root, m.g, set...)
	want, wantFail := specEvalAt(b.Doc, m.ast, 0, bind)
	// A reference to an unbound prefix must fail when it is evaluated; failing
	// already when it is not (no candidate node reaches the name test) is allowed.
	_, pOK := bind.NS["p"]
	_, qOK := bind.NS["q"]
	usesP, usesQ := contains(m.src, "p:"), contains(m.src, "q:")
	eager := (usesP && !pOK) || (usesQ && !qOK)
	if !(eager && err != nil && !wantFail) {
		c01.CompareResult(b, r, err, want, wantFail, m.src)
	}
	// the same query with p and q exchanged in the expression and in the bindings
	r2, err2 := xsel.Exec(b.Root, m.gs, swapped...)
	nd.Assert((err == nil) == (err2 == nil), "renamed.same-outcome:"+m.src)
	if !(eager && err2 != nil && !wantFail) {
		c01.CompareResult(b, r2, err2, want, wantFail, "renamed:"+m.src)
	}
}

type call struct {
	n       int
	args    []xsel.Result
	result  xsel.Result
	pos     int
	results []xsel.Result
	poss    []int
}

func (c *call) fn(ret xsel.Result) xsel.Function {
	return func(ctx xsel.Context, args ...xsel.Result) (xsel.Result, error) {
		c.n++
		c.args = args
		c.result = ctx.Result()
		c.pos = ctx.ContextPosition()
		c.results = append(c.results, c.result)
		c.poss = append(c.poss, c.pos)
		return ret, nil
	}
}

// RunVariables: a variable evaluates to exactly the bound value.
func RunVariables() {
	b := hx.Gen(hx.GenOpts{MaxEvents: 3, MaxDepth: 2, Attrs: 1})
	nd.Assert(b.TieOK, "store-mirrors-script")
	var v xsel.Result
	kind := nd.Choice(4)
	var ns xsel.NodeSet
	switch kind {
	case 0:
		v = xsel.Number(nd.F64())
	case 1:
		v = xsel.String(nd.Str(nd.Choice(3)))
	case 2:
		v = xsel.Bool(nd.Bool())
	case 3:
		for k := nd.Choice(3); k > 0; k-- {
			ns = append(ns, b.Cursors[nd.Choice(len(b.Doc.Nodes))])
		}
		v = ns
	}
	u := symURI()
	same := func(r xsel.Result, id string) {
		switch kind {
		case 0:
			n, ok := r.(xsel.Number)
			nd.Assert(ok && nd.SameF64(float64(n), float64(v.(xsel.Number))), id)
		case 1:
			s, ok := r.(xsel.String)
			nd.Assert(ok && s == v.(xsel.String), id)
		case 2:
			x, ok := r.(xsel.Bool)
			nd.Assert(ok && x == v.(xsel.Bool), id)
		case 3:
			x, ok := r.(xsel.NodeSet)
			okAll := ok && len(x) == len(ns)
			if okAll {
				for k := range ns {
					if x[k] != ns[k] {
						okAll = false
					}
				}
			}
			nd.Assert(okAll, id)
		}
	}
	nd.Reach("variables")
	r, err := xsel.Exec(b.Root, varX, xsel.WithVariable("x", v))
	nd.Assert(err == nil, "var.noerr")
	same(r, "var.exact-value")
	r, err = xsel.Exec(b.Root, varPX, xsel.WithNS("p", u), xsel.WithVariableNS(u, "x", v), xsel.WithVariable("x", xsel.String("other")))
	nd.Assert(err == nil, "var.ns.noerr")
	same(r, "var.ns.exact-value")
	// the prefix is looked up in the bindings: q bound to the same URI names the same variable
	r, err = xsel.Exec(b.Root, varQX, xsel.WithNS("q", u), xsel.WithVariableNS(u, "x", v))
	nd.Assert(err == nil, "var.alias.noerr")
	same(r, "var.alias.exact-value")
	_, err = xsel.Exec(b.Root, varUnbound, xsel.WithVariable("x", v))
	nd.Assert(err != nil, "var.unbound.error")
	_, err = xsel.Exec(b.Root, varPX, xsel.WithVariableNS(u, "x", v))
	nd.Assert(err != nil, "var.unbound-prefix.error")
}

// RunFunctions: a registered user function is called, in preference to a
// builtin of the same name, once, with the evaluated arguments in order and the
// current context; unbound names are errors only when evaluated.
func RunFunctions() {
	b := hx.Gen(hx.GenOpts{MaxEvents: 4, MaxDepth: 2, Attrs: 1})
	nd.Assert(b.TieOK, "store-mirrors-script")
	nElems := 0
	for _, n := range b.Doc.Nodes {
		if n.Kind == spec.Elem {
			nElems++
		}
	}
	u := symURI()
	nd.Reach("functions")
	// shadowing a builtin
	c := &call{}
	ret := xsel.Number(nd.F64())
	r, err := xsel.Exec(b.Root, fnCount, xsel.WithFunction("count", c.fn(ret)))
	nd.Assert(err == nil, "fn.shadow.noerr")
	n, ok := r.(xsel.Number)
	nd.Assert(ok && nd.SameF64(float64(n), float64(ret)), "fn.shadow.user-result")
	nd.Assert(c.n == 1, "fn.shadow.called-once")
	if c.n == 1 {
		a0, ok := c.args[0].(xsel.NodeSet)
		nd.Assert(len(c.args) == 1 && ok && len(a0) == nElems, "fn.shadow.argument")
	}
	// prefixed function with three arguments
	c = &call{}
	r, err = xsel.Exec(b.Root, fnPF, xsel.WithNS("p", u), xsel.WithFunctionNS(u, "f", c.fn(xsel.String("r"))))
	nd.Assert(err == nil, "fn.prefixed.noerr")
	s, ok := r.(xsel.String)
	nd.Assert(ok && s == "r", "fn.prefixed.result")
	nd.Assert(c.n == 1 && len(c.args) == 3, "fn.prefixed.called-once-with-3-args")
	if c.n == 1 && len(c.args) == 3 {
		a0, ok0 := c.args[0].(xsel.Number)
		a1, ok1 := c.args[1].(xsel.String)
		a2, ok2 := c.args[2].(xsel.NodeSet)
		nd.Assert(ok0 && a0 == 2 && ok1 && a1 == "x" && ok2 && len(a2) == nElems, "fn.prefixed.arguments-in-order")
		cr, okc := c.result.(xsel.NodeSet)
		nd.Assert(okc && len(cr) == 1 && cr[0] == b.Root, "fn.prefixed.context-node")
	}
	// inside a predicate: called once per candidate with that node and position
	c = &call{}
	_, err = xsel.Exec(b.Root, fnPred, xsel.WithNS("p", u), xsel.WithFunctionNS(u, "f", c.fn(xsel.Bool(true))))
	nd.Assert(err == nil, "fn.predicate.noerr")
	nd.Assert(c.n == nElems, "fn.predicate.called-per-node")
	// each call sees one distinct element as context node, and a context
	// position that is that element's index among its element siblings
	// (ContextPosition() is zero-based: position() = ContextPosition() + 1)
	for k, cr := range c.results {
		ns, ok := cr.(xsel.NodeSet)
		okNode := ok && len(ns) == 1
		idx := -1
		if okNode {
			idx = b.Index(ns[0])
			okNode = idx >= 0 && b.Doc.Nodes[idx].Kind == spec.Elem
		}
		nd.Assert(okNode, "fn.predicate.context-node")
		if okNode {
			before := 0
			for _, sib := range b.Doc.Nodes[b.Doc.Nodes[idx].Parent].Children {
				if sib == idx {
					break
				}
				if b.Doc.Nodes[sib].Kind == spec.Elem {
					before++
				}
			}
			nd.Assert(c.poss[k] == before, "fn.predicate.context-position")
			for j := 0; j < k; j++ {
				pj, _ := c.results[j].(xsel.NodeSet)
				nd.Assert(len(pj) != 1 || pj[0] != ns[0], "fn.predicate.distinct-nodes")
			}
		}
	}
	// unknown function / unbound prefix: error when evaluated
	_, err = xsel.Exec(b.Root, fnUnknown)
	nd.Assert(err != nil, "fn.unknown.error")
	_, err = xsel.Exec(b.Root, fnUnboundPfx)
	nd.Assert(err != nil, "fn.unbound-prefix.error")
	// builtins still work when other names are registered
	r, err = xsel.Exec(b.Root, fnString, xsel.WithFunction("other", c.fn(ret)))
	s, ok = r.(xsel.String)
	nd.Assert(err == nil && ok && s == "1", "fn.builtin-unaffected")
	// bindings are per query: what was registered above is gone now
	r, err = xsel.Exec(b.Root, fnCount)
	n, ok = r.(xsel.Number)
	nd.Assert(err == nil && ok && float64(n) == float64(nElems), "fn.shadow.does-not-outlive-the-query")
	_, err = xsel.Exec(b.Root, fnPF, xsel.WithNS("p", u))
	nd.Assert(err != nil, "fn.prefixed.unbound-in-a-later-query")
}

// builtin function names of XPath 1.0 section 4
var builtins = []string{"last", "position", "count", "id", "local-name", "namespace-uri", "name", "string", "concat",
	"starts-with", "contains", "substring-before", "substring-after", "substring", "string-length", "normalize-space",
	"translate", "boolean", "not", "true", "false", "lang", "number", "sum", "floor", "ceiling", "round"}

type shadowForms struct{ top, pred, predSp, filt, cmp, arg, path *xsel.Grammar }

var shadow map[string]*shadowForms

func wrapper(f string) string {
	if f == "string" {
		return "normalize-space"
	}
	return "string"
}

func setupShadow() {
	shadow = map[string]*shadowForms{}
	for _, f := range builtins {
		shadow[f] = &shadowForms{
			top:    build(f + "()"),
			pred:   build("/descendant::*[" + f + "()]"),
			predSp: build("/descendant::*[ " + f + " ( ) ]"),
			filt:   build("(/descendant::*)[" + f + "()]"),
			cmp:    build("/descendant::*[" + f + "() = 'zz']"),
			arg:    build(wrapper(f) + "(" + f + "())"),
			path:   build("/descendant::*/" + f + "()"),
		}
	}
}

// RunShadow: a user function registered under the name of any builtin is
// called in its place, wherever the call stands.
func RunShadow() {
	b := hx.GenOrSkeleton(hx.GenOpts{MaxEvents: 4, MaxDepth: 2, Attrs: 1})
	nd.Assert(b.TieOK, "store-mirrors-script")
	nElems := 0
	for _, n := range b.Doc.Nodes {
		if n.Kind == spec.Elem {
			nElems++
		}
	}
	name := builtins[nd.Choice(len(builtins))]
	f := shadow[name]
	nd.Reach("shadow")
	run := func(g *xsel.Grammar, ret xsel.Result) (xsel.Result, error, *call) {
		c := &call{}
		r, err := xsel.Exec(b.Root, g, xsel.WithFunction(name, c.fn(ret)))
		return r, err, c
	}
	r, err, c := run(f.top, xsel.String("user"))
	s, ok := r.(xsel.String)
	nd.Assert(err == nil && ok && s == "user" && c.n == 1 && len(c.args) == 0, "shadow.top-level:"+name)
	for k, g := range []*xsel.Grammar{f.pred, f.predSp, f.filt, f.cmp} {
		id := []string{"predicate", "spaced-predicate", "filter-predicate", "comparison-in-predicate"}[k]
		r, err, c = run(g, xsel.Bool(false))
		ns, ok := r.(xsel.NodeSet)
		nd.Assert(err == nil && ok && len(ns) == 0, "shadow."+id+".user-result-decides:"+name)
		nd.Assert(c.n == nElems, "shadow."+id+".called-per-candidate:"+name)
		if k < 3 {
			r, err, c = run(g, xsel.Bool(true))
			ns, ok = r.(xsel.NodeSet)
			nd.Assert(err == nil && ok && len(ns) == nElems && c.n == nElems, "shadow."+id+".true-keeps-all:"+name)
		}
	}
	r, err, c = run(f.arg, xsel.Number(7))
	s, ok = r.(xsel.String)
	nd.Assert(err == nil && ok && s == "7" && c.n == 1, "shadow.as-argument:"+name)
	_, err, c = run(f.path, xsel.String("user"))
	nd.Assert(nElems == 0 || c.n >= 1, "shadow.in-path.called:"+name)
}
