// Package c18: sub-queries from any node compose like steps inside one query
// (property C18).
package c18

import (
	"github.com/ChrisTrenkamp/xsel"

	"verifharness/c01"
	"verifharness/hx"
	"verifharness/nd"
	"verifharness/spec"
)

type rel struct {
	src string
	ast spec.Expr
	g   *xsel.Grammar
}

var (
	rels     []rel
	prefixes []rel
	composed [][]*xsel.Grammar // composed[p][r] = "P/R"
	fnStep   []rel             // P/f()
	fnArg    []rel             // f(P)
)

var (
	tNode = spec.NodeTest{Kind: spec.TNode}
	tText = spec.NodeTest{Kind: spec.TText}
	tAny  = spec.NameTest("", "*")
	tA    = spec.NameTest("", "a")
	dos   = spec.S("descendant-or-self", tNode)
	pos   = spec.Fn("position")
	last  = spec.Fn("last")
)

func mk(ast spec.Expr) rel {
	src := spec.Render(ast)
	g := xsel.MustBuildExpr(src)
	return rel{src: src, ast: ast, g: &g}
}

func Setup() {
	setupAbbrev()
	one := spec.Num{V: 1}
	rels = []rel{
		mk(spec.Rel(spec.S("parent", tNode))),
		mk(spec.Rel(spec.S("following-sibling", tAny))),
		mk(spec.Rel(spec.S("preceding", tNode))),
		mk(spec.Rel(spec.S("ancestor", tAny, one))),
		mk(spec.Rel(spec.S("child", tAny, last))),
		mk(spec.Rel(spec.S("self", tNode, spec.Bin{Op: "=", L: pos, R: one}))),
		mk(spec.Rel(spec.S("self", tNode, spec.Bin{Op: "=", L: last, R: one}))),
		mk(spec.Rel(spec.S("self", tNode), dos, spec.S("child", tA))),
		mk(spec.Rel(spec.S("attribute", tAny))),
		mk(spec.Rel(spec.S("parent", tNode), spec.S("attribute", tAny))),
		mk(spec.Rel(spec.S("ancestor-or-self", tNode), spec.S("following-sibling", tNode))),
		mk(spec.Rel(spec.S("self", tNode, spec.AbsP(spec.S("child", tAny))))),
		mk(spec.Rel(spec.S("parent", tNode), spec.S("child", tNode, pos))),
	}
	prefixes = []rel{
		mk(spec.AbsP(dos, spec.S("child", tAny))),
		mk(spec.AbsP(spec.S("child", tAny), spec.S("child", tAny))),
		mk(spec.AbsP(dos, spec.S("attribute", tAny))),
		mk(spec.AbsP(dos, spec.S("child", tText))),
		mk(spec.AbsP(dos, spec.S("child", tNode))),
	}
	composed = nil
	for _, p := range prefixes {
		var row []*xsel.Grammar
		for _, r := range rels {
			g := xsel.MustBuildExpr(p.src + "/" + r.src)
			row = append(row, &g)
		}
		composed = append(composed, row)
	}
	fnStep, fnArg = nil, nil
	fnPaths := []spec.Expr{
		spec.AbsP(dos, spec.S("child", tNode)),
		spec.AbsP(dos, spec.S("child", tNode), spec.S("ancestor", tAny)),              // ends in a reverse axis
		spec.AbsP(dos, spec.S("child", tNode), spec.S("preceding-sibling", tNode)),    // reverse
		spec.AbsP(dos, spec.S("child", tAny), spec.S("preceding", tAny)),              // reverse
		spec.AbsP(dos, spec.S("attribute", tAny), spec.S("ancestor-or-self", tNode)),  // reverse, starts at attributes
		spec.AbsP(dos, spec.S("child", tAny, last), spec.S("ancestor-or-self", tAny)), // reverse after a predicate
		spec.AbsP(dos, spec.S("attribute", tAny)),
		spec.Rel(spec.S("ancestor-or-self", tNode)), // relative: evaluated from the root
	}
	for k, p := range fnPaths {
		fns := []string{"string", "number", "local-name", "name", "namespace-uri", "string-length", "normalize-space"}
		if k > 0 {
			fns = []string{"string", "name", "local-name", "namespace-uri"}
		}
		for _, f := range fns {
			s1 := spec.Render(p) + "/" + f + "()"
			g1 := xsel.MustBuildExpr(s1)
			fnStep = append(fnStep, rel{src: s1, g: &g1})
			s2 := f + "(" + spec.Render(p) + ")"
			g2 := xsel.MustBuildExpr(s2)
			fnArg = append(fnArg, rel{src: s2, g: &g2})
		}
	}
}

func genOpts() hx.GenOpts {
	o := hx.GenOpts{MaxEvents: 4, MaxDepth: 2, Attrs: 1, NS: 1, Other: true, SymNames: true, TopLevel: true, TextLen: 0}
	if nd.Tier() > 0 {
		o.MaxEvents, o.MaxDepth, o.Attrs = 6, 3, 2
	}
	return o
}

func specEvalAt(d *spec.Doc, e spec.Expr, ctx int, b *spec.Bindings) (v spec.Val, failed bool) {
	defer func() {
		if r := recover(); r != nil {
			if _, ok := r.(spec.Err); ok {
				failed = true
				return
			}
			panic(r)
		}
	}()
	v = d.Eval(e, spec.Ctx{Node: ctx, Pos: 1, Size: 1}, b)
	return
}

// RunFromNode: Exec(n, R) is R evaluated with context node n, position 1,
// size 1, for every node n of every kind.
func RunFromNode() {
	b := hx.GenOrSkeleton(genOpts())
	nd.Assert(b.TieOK, "store-mirrors-script")
	ctx := nd.Choice(len(b.Doc.Nodes))
	bind := &spec.Bindings{NS: map[string]string{}, Vars: map[string]spec.Val{}}
	nd.Reach("from-node")
	for k := range rels {
		m := &rels[k]
		r, err := xsel.Exec(b.Cursors[ctx], m.g)
		want, wantFail := specEvalAt(b.Doc, m.ast, ctx, bind)
		c01.CompareResult(b, r, err, want, wantFail, m.src)
	}
}

// RunCompose: Exec(root, "P/R") equals the union over n in Exec(root, P) of
// Exec(n, R) — both sides are the real code.
func RunCompose() {
	b := hx.GenOrSkeleton(genOpts())
	nd.Assert(b.TieOK, "store-mirrors-script")
	pi := nd.Choice(len(prefixes))
	nd.Reach("compose")
	pr, err := xsel.Exec(b.Root, prefixes[pi].g)
	nd.Assert(err == nil, "prefix.noerr")
	pset, ok := pr.(xsel.NodeSet)
	nd.Assert(ok, "prefix.is-nodeset")
	for ri := range rels {
		id := prefixes[pi].src + "/" + rels[ri].src
		whole, err := xsel.Exec(b.Root, composed[pi][ri])
		nd.Assert(err == nil, id+".noerr")
		wset, ok := whole.(xsel.NodeSet)
		nd.Assert(ok, id+".is-nodeset")
		union := make([]bool, len(b.Doc.Nodes))
		for _, n := range pset {
			sub, err := xsel.Exec(n, rels[ri].g)
			nd.Assert(err == nil, id+".sub.noerr")
			sset, ok := sub.(xsel.NodeSet)
			nd.Assert(ok, id+".sub.is-nodeset")
			for _, c := range sset {
				if k := b.Index(c); k >= 0 {
					union[k] = true
				} else {
					nd.Assert(false, id+".sub.only-document-nodes")
				}
			}
		}
		got := make([]bool, len(b.Doc.Nodes))
		for _, c := range wset {
			if k := b.Index(c); k >= 0 {
				got[k] = true
			} else {
				nd.Assert(false, id+".only-document-nodes")
			}
		}
		same := true
		for k := range got {
			if got[k] != union[k] {
				same = false
			}
		}
		nd.Assert(same, id+".composes")
	}
}

// RunFnStep: P/f() equals f(P) for the context-dependent builtins.
func RunFnStep() {
	o := genOpts()
	o.TextLen = 1
	if nd.Tier() > 0 {
		o.MaxEvents, o.Attrs = 5, 1
	}
	b := hx.Gen(o)
	nd.Assert(b.TieOK, "store-mirrors-script")
	nd.Reach("fn-step")
	for k := range fnStep {
		r1, e1 := xsel.Exec(b.Root, fnStep[k].g)
		r2, e2 := xsel.Exec(b.Root, fnArg[k].g)
		id := fnStep[k].src
		if e1 != nil {
			nd.Note("e1: " + e1.Error())
		}
		if e2 != nil {
			nd.Note("e2: " + e2.Error())
		}
		nd.Assert(e1 == nil && e2 == nil, id+".noerr")
		switch v1 := r1.(type) {
		case xsel.String:
			v2, ok := r2.(xsel.String)
			nd.Assert(ok && v1 == v2, id+".same")
		case xsel.Number:
			v2, ok := r2.(xsel.Number)
			nd.Assert(ok && nd.SameF64(float64(v1), float64(v2)), id+".same")
		default:
			nd.Assert(false, id+".type")
		}
	}
}

var abPrefix = []string{"//*/ancestor::*", "//*/preceding-sibling::*", "//node()/preceding::*", "//@*/ancestor-or-self::*", "//*", "/*/*"}
var abJoin = [][2]string{{"//a", ".//a"}, {"//*", ".//*"}, {"//@*", ".//@*"}, {"//text()", ".//text()"}, {"/..", ".."}, {"//.", ".//."}, {"/*", "*"}}
var abP, abR []*xsel.Grammar
var abWhole [][]*xsel.Grammar

func setupAbbrev() {
	abP, abR, abWhole = nil, nil, nil
	mk := func(s string) *xsel.Grammar {
		g := xsel.MustBuildExpr(s)
		return &g
	}
	for _, j := range abJoin {
		abR = append(abR, mk(j[1]))
	}
	for _, p := range abPrefix {
		abP = append(abP, mk(p))
		var row []*xsel.Grammar
		for _, j := range abJoin {
			row = append(row, mk(p+j[0]))
		}
		abWhole = append(abWhole, row)
	}
}

// RunComposeAbbrev: the composition law for ABBREVIATED joins (P//x, P/..,
// P/*), also when P ends in a reverse axis so that its nodes arrive in reverse
// document order: Exec(root, P//x) = union over n in P of Exec(n, .//x).
func RunComposeAbbrev() {
	b := hx.GenOrSkeleton(genOpts())
	nd.Assert(b.TieOK, "store-mirrors-script")
	pi := nd.Choice(len(abPrefix))
	nd.Reach("compose-abbrev")
	pr, err := xsel.Exec(b.Root, abP[pi])
	pset, ok := pr.(xsel.NodeSet)
	nd.Assert(err == nil && ok, "prefix.is-nodeset")
	for ri := range abJoin {
		id := abPrefix[pi] + abJoin[ri][0]
		whole, err := xsel.Exec(b.Root, abWhole[pi][ri])
		wset, ok := whole.(xsel.NodeSet)
		nd.Assert(err == nil && ok, id+".is-nodeset")
		union := make([]bool, len(b.Doc.Nodes))
		for _, n := range pset {
			sub, err := xsel.Exec(n, abR[ri])
			sset, ok := sub.(xsel.NodeSet)
			nd.Assert(err == nil && ok, id+".sub.is-nodeset")
			for _, c := range sset {
				if k := b.Index(c); k >= 0 {
					union[k] = true
				}
			}
		}
		got := make([]bool, len(b.Doc.Nodes))
		for _, c := range wset {
			if k := b.Index(c); k >= 0 {
				got[k] = true
			}
		}
		same := true
		for k := range got {
			if got[k] != union[k] {
				same = false
			}
		}
		nd.Assert(same, id+".composes")
	}
}
