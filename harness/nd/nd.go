// Package nd is the harness language of /verif: nondeterministic inputs,
// assumptions, assertions and branch-free combinators.
//
// Under symgo every function here is an intrinsic of the engine (the bodies
// below are not executed). Compiled natively — the replay build — the
// functions read a recorded vector of values, so that a solver model can be
// re-run against the natively compiled code under test.
package nd

import (
	"encoding/json"
	"fmt"
	"math"
	"os"
	"runtime"
	"strconv"
)

type Rec struct {
	Kind string `json:"kind"`
	Bits uint64 `json:"bits"`
}

// State of a native replay.
var (
	vec      []Rec
	pos      int
	Failed   []string // ids of failed assertions, in order
	Diverged string
	tier     int
	memo     = map[string]any{}
)

// Stop is the panic value used to end a native replay early.
type Stop struct{ Why string }

// Load prepares a native replay.
func Load(v []Rec) {
	vec, pos, Failed, Diverged = v, 0, nil, ""
	if t, err := strconv.Atoi(os.Getenv("ND_TIER")); err == nil {
		tier = t
	}
}

func LoadFile(path string) error {
	b, err := os.ReadFile(path)
	if err != nil {
		return err
	}
	var f struct {
		Vector []Rec `json:"vector"`
	}
	if err := json.Unmarshal(b, &f); err != nil {
		return err
	}
	Load(f.Vector)
	return nil
}

func next(kind string) uint64 {
	if pos >= len(vec) {
		Diverged = fmt.Sprintf("vector exhausted at %d (want %s)", pos, kind)
		panic(Stop{"diverged"})
	}
	r := vec[pos]
	pos++
	if r.Kind != kind {
		Diverged = fmt.Sprintf("vector kind mismatch at %d: have %s want %s", pos-1, r.Kind, kind)
		panic(Stop{"diverged"})
	}
	return r.Bits
}

func F64() float64 { return math.Float64frombits(next("f64")) }
func Byte() byte   { return byte(next("byte")) }
func Bool() bool   { return next("bool") != 0 }

// Int returns a value in [lo,hi] (symbolic under the engine).
func Int(lo, hi int) int {
	v := int(int64(next("int")))
	if v < lo || v > hi {
		Diverged = fmt.Sprintf("int %d outside [%d,%d]", v, lo, hi)
		panic(Stop{"diverged"})
	}
	return v
}

// Choice returns a value in [0,n); the engine forks n ways without a solver.
func Choice(n int) int { return int(next("choice")) }

// Str returns a string of exactly n nondeterministic bytes.
func Str(n int) string {
	b := make([]byte, n)
	for i := range b {
		b[i] = Byte()
	}
	return string(b)
}

func Assume(c bool) {
	if !c {
		panic(Stop{"assumption false"})
	}
}

// Assert records a failed assertion and continues (the engine continues under
// the assumption that the assertion held; natively the failure is on record).
func Assert(c bool, id string) {
	if !c {
		Failed = append(Failed, id)
	}
}

func Reach(id string) {}

// Known marks the region of a recorded known finding. Under the engine, if the
// finding is listed, the region is removed from the checked space; natively it
// does nothing. Always returns false.
func Known(id string, region bool) bool { return false }

func Unsupported(reason string) { panic(Stop{"unsupported: " + reason}) }
func Note(s string)             {}

func And(a, b bool) bool     { return a && b }
func Or(a, b bool) bool      { return a || b }
func Not(a bool) bool        { return !a }
func Implies(a, b bool) bool { return !a || b }

func IteF64(c bool, a, b float64) float64 {
	if c {
		return a
	}
	return b
}
func IteInt(c bool, a, b int) int {
	if c {
		return a
	}
	return b
}
func IteBool(c bool, a, b bool) bool {
	if c {
		return a
	}
	return b
}
func IteByte(c bool, a, b byte) byte {
	if c {
		return a
	}
	return b
}
func IteRune(c bool, a, b rune) rune {
	if c {
		return a
	}
	return b
}

// SameF64: identical doubles (NaN same as NaN, +0 differs from -0).
func SameF64(a, b float64) bool {
	if a != a || b != b {
		return a != a && b != b
	}
	return math.Float64bits(a) == math.Float64bits(b)
}

func EqStr(a, b string) bool { return a == b }

func Tier() int      { return tier }
func Symbolic() bool { return false }

// Protect / Writes: the engine's write monitor; no native equivalent.
func Protect(roots ...any) int       { return 0 }
func Writes(h int, netOnly bool) int { return 0 }

// Depth is the current call depth (interpreter frames under the engine,
// goroutine stack frames natively).
func Depth() int {
	var pcs [4096]uintptr
	return runtime.Callers(0, pcs[:])
}

func ForkMaps(on bool) {}

func IsConcrete(v any) bool { return true }

// Memo runs f once (per engine worker) outside the path's undo log.
func Memo(key string, f func() any) any {
	if v, ok := memo[key]; ok {
		return v
	}
	v := f()
	memo[key] = v
	return v
}

// Stdout / Stderr return the writes captured by the engine.
func Stdout() []string { return nil }
func Stderr() []string { return nil }
