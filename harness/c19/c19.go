// Package c19: Unmarshal fills targets with the converted results of their tag
// queries (property C19). Runs on the engine's model of package reflect.
package c19

import (
	"math"

	"github.com/ChrisTrenkamp/xsel"

	"verifharness/hx"
	"verifharness/nd"
)

type Inner struct {
	V    string `xsel:"."`
	Keep int
}

type Target struct {
	S     string  `xsel:"/r/a"`
	N     int     `xsel:"/r/n"`
	I8    int8    `xsel:"count(/r/a)"`
	U     uint    `xsel:"count(/r/*)"`
	F     float64 `xsel:"/r/n"`
	F32   float32 `xsel:"count(/r/a)"`
	B     bool    `xsel:"/r/nosuch"`
	B2    bool    `xsel:"/r/a"`
	Keep  string
	P     *string   `xsel:"/r/a[2]"`
	PP    **int     `xsel:"count(/r/a)"`
	L     []string  `xsel:"/r/a"`
	LI    []int     `xsel:"/r/n"`
	LP    []*string `xsel:"/r/a"`
	Sub   Inner     `xsel:"/r"`
	PSub  *Inner    `xsel:"/r/n"`
	Subs  []Inner   `xsel:"/r/a"`
	PSubs []*Inner  `xsel:"/r/a"`
}

func Setup() {}

type built struct {
	root xsel.Cursor
	as   []string
	n    string
}

func doc() built {
	var b built
	ev := []hx.Event{{N: hx.Elem{Name: "r"}}}
	for k := nd.Choice(3); k > 0; k-- {
		s := nd.Str(1)
		b.as = append(b.as, s)
		ev = append(ev, hx.Event{N: hx.Elem{Name: "a"}}, hx.Event{N: hx.Text{Val: s}}, hx.Event{End: true})
	}
	// a number text: digits with optional sign, symbolic
	d := nd.Byte()
	nd.Assume(nd.And(d >= '0', d <= '9'))
	b.n = string([]byte{d})
	if nd.Choice(2) == 1 {
		b.n = "-" + b.n
	}
	ev = append(ev, hx.Event{N: hx.Elem{Name: "n"}}, hx.Event{N: hx.Text{Val: b.n}}, hx.Event{End: true}, hx.Event{End: true})
	b.root, _ = hx.Build(ev)
	return b
}

func str(c xsel.Cursor, q string) string {
	g := compile(q)
	s, _ := xsel.ExecAsString(c, g)
	return s
}

func num(c xsel.Cursor, q string) float64 {
	g := compile(q)
	n, _ := xsel.ExecAsNumber(c, g)
	return n
}

func compile(q string) *xsel.Grammar {
	return nd.Memo("q:"+q, func() any {
		g := xsel.MustBuildExpr(q)
		return &g
	}).(*xsel.Grammar)
}

// RunStruct: a struct target with fields of every supported kind.
func RunStruct() {
	b := doc()
	sentinel := "untouched"
	t := Target{Keep: sentinel}
	t.Sub.Keep = 7
	if nd.Bool() {
		// a target that is not zero-valued (reused, or pre-populated by the caller)
		old := "stale"
		t.S, t.N, t.B2, t.P = "stale", 9, true, &old
		t.L, t.LI, t.LP = []string{"stale"}, []int{9, 9}, []*string{&old}
		t.Subs, t.PSubs = []Inner{{V: "stale"}}, []*Inner{{V: "stale"}}
		t.Sub.V = "stale"
	}
	err := xsel.Unmarshal(xsel.NodeSet{b.root}, &t)
	nd.Reach("struct")
	if err != nil {
		nd.Note("error: " + err.Error())
	}
	nd.Assert(err == nil, "unmarshal.noerr")
	if err != nil {
		return
	}
	na := len(b.as)
	first := ""
	if na > 0 {
		first = b.as[0]
	}
	nd.Assert(t.S == first, "field.string")
	nd.Assert(nd.SameF64(t.F, num(b.root, "/r/n")), "field.float64")
	nd.Assert(t.N == int(num(b.root, "/r/n")), "field.int")
	nd.Assert(t.I8 == int8(na), "field.int8")
	nd.Assert(t.U == uint(na+1), "field.uint")
	nd.Assert(t.F32 == float32(na), "field.float32")
	nd.Assert(t.B == false && t.B2 == (na > 0), "field.bool")
	nd.Assert(t.Keep == sentinel, "field.untagged-untouched")
	want2 := ""
	if na > 1 {
		want2 = b.as[1]
	}
	nd.Assert(t.P != nil && *t.P == want2, "field.pointer")
	nd.Assert(t.PP != nil && *t.PP != nil && **t.PP == na, "field.pointer-to-pointer")
	okL := len(t.L) == na && len(t.LP) == na && len(t.Subs) == na && len(t.PSubs) == na
	nd.Assert(okL, "field.slice-lengths")
	if okL {
		for k := range b.as {
			nd.Assert(t.L[k] == b.as[k], "field.slice-of-strings")
			nd.Assert(t.LP[k] != nil && *t.LP[k] == b.as[k], "field.slice-of-pointers")
			nd.Assert(t.Subs[k].V == b.as[k], "field.slice-of-structs")
			nd.Assert(t.PSubs[k] != nil && t.PSubs[k].V == b.as[k], "field.slice-of-struct-pointers")
		}
	}
	nd.Assert(len(t.LI) == 1 && t.LI[0] == int(num(b.root, "/r/n")), "field.slice-of-ints")
	nd.Assert(t.Sub.V == str(b.root, "/r"), "field.nested-struct")
	nd.Assert(t.PSub != nil, "field.nested-struct-pointer.allocated")
}

// RunSlice: slice targets get one element per node, in order.
func RunSlice() {
	b := doc()
	g := compile("/r/a")
	r, err := xsel.Exec(b.root, g)
	nd.Assert(err == nil, "slice.exec")
	var ss []string
	err = xsel.Unmarshal(r, &ss)
	nd.Reach("slice")
	nd.Assert(err == nil, "slice.strings.noerr")
	ok := len(ss) == len(b.as)
	nd.Assert(ok, "slice.strings.len")
	if ok {
		for k := range ss {
			nd.Assert(ss[k] == b.as[k], "slice.strings.value")
		}
	}
	var is []Inner
	err = xsel.Unmarshal(r, &is)
	nd.Assert(err == nil && len(is) == len(b.as), "slice.structs")
}

// RunBadTargets: targets that cannot be filled produce an error, never a panic.
func RunBadTargets() {
	b := doc()
	ns := xsel.NodeSet{b.root}
	var nilPtr *Target
	var m map[string]string
	var arr [2]string
	var ch chan int
	var multi [][]string
	type unexp struct {
		s string `xsel:"/r/a"`
	}
	var u unexp
	var f func()
	type Level int
	type ID string
	type Span int64
	var named struct {
		L Level `xsel:"count(/r/a)"`
	}
	var namedStr struct {
		I *ID `xsel:"/r/n"`
	}
	var namedSlice []Span
	k := nd.Choice(14)
	var err error
	switch k {
	case 0:
		err = xsel.Unmarshal(ns, Target{})
	case 1:
		err = xsel.Unmarshal(ns, nil)
	case 2:
		err = xsel.Unmarshal(ns, nilPtr)
	case 3:
		err = xsel.Unmarshal(ns, &nilPtr)
	case 4:
		err = xsel.Unmarshal(ns, &m)
	case 5:
		err = xsel.Unmarshal(ns, &arr)
	case 6:
		err = xsel.Unmarshal(ns, &ch)
	case 7:
		err = xsel.Unmarshal(ns, &multi)
	case 8:
		err = xsel.Unmarshal(ns, &u)
	case 9:
		err = xsel.Unmarshal(ns, &f)
	case 11:
		// fields and elements of named basic types cannot be assigned the plain
		// int/string values the library builds
		err = xsel.Unmarshal(ns, &named)
	case 12:
		err = xsel.Unmarshal(ns, &namedStr)
	case 13:
		err = xsel.Unmarshal(ns, &namedSlice)
	case 10:
		// wrong result shape: a struct from a two-node node-set
		var t Target
		err = xsel.Unmarshal(xsel.NodeSet{b.root, b.root}, &t)
	}
	nd.Reach("bad-targets")
	if k == 3 {
		// a pointer to a nil pointer can be filled by allocating: either outcome is
		// acceptable as long as it does not panic
		return
	}
	nd.Assert(err != nil, "bad-target.error")
}

// --- the repository's own TestUnmarshal, replayed under the engine's reflect
// model (translator validation): same target types, same document.

type SubUnmarshalTarget struct {
	A      *string `xsel:"a"`
	Battr  bool    `xsel:"b/@attr"`
	Ignore string
}

type SliceUnmarshalTarget struct {
	Elem string `xsel:"."`
}

type UnmarshalTarget struct {
	Text        string                   `xsel:"normalize-space(text())"`
	Attr        float32                  `xsel:"node/@attr"`
	Attr64      float64                  `xsel:"node/@attr"`
	Subfield    **SubUnmarshalTarget     `xsel:"node"`
	Slice       *[]*SliceUnmarshalTarget `xsel:"slice/elem"`
	StringSlice []string                 `xsel:"slice/elem"`
	Uint8       uint8                    `xsel:"slice/elem[1]"`
	Int8        int8                     `xsel:"slice/elem[1]"`
	Uint16      uint16                   `xsel:"slice/elem[1]"`
	Int16       int16                    `xsel:"slice/elem[1]"`
	Uint32      uint32                   `xsel:"slice/elem[1]"`
	Int32       int32                    `xsel:"slice/elem[1]"`
	Uint64      uint64                   `xsel:"slice/elem[1]"`
	Int64       int64                    `xsel:"slice/elem[1]"`
	Uint        uint                     `xsel:"slice/elem[1]"`
	Int         int                      `xsel:"slice/elem[1]"`
}

func RunRepoTest() {
	e := func(n string) hx.Event { return hx.Event{N: hx.Elem{Name: n}} }
	end := hx.Event{End: true}
	tx := func(s string) hx.Event { return hx.Event{N: hx.Text{Val: s}} }
	ev := []hx.Event{e("root"), tx("\n\tfoo\n\t"),
		e("node"), {N: hx.Attr{Name: "attr", Val: "3.14"}}, e("a"), tx("a"), end, e("b"), {N: hx.Attr{Name: "attr", Val: "true"}}, end, end,
		e("slice"), e("elem"), tx("1"), end, e("elem"), tx("2"), end, e("elem"), tx("3"), end, end, end}
	root, _ := hx.Build(ev)
	nodes, err := xsel.Exec(root, compile("/root"))
	nd.Assert(err == nil, "repo-test.exec")
	target := UnmarshalTarget{}
	err = xsel.Unmarshal(nodes, &target)
	nd.Reach("repo-test")
	nd.Assert(err == nil, "repo-test.noerr")
	ok := target.Text == "foo" && target.Attr == 3.14 && target.Attr64 == 3.14 &&
		target.Subfield != nil && *target.Subfield != nil && (*target.Subfield).A != nil && *(*target.Subfield).A == "a" &&
		(*target.Subfield).Battr && (*target.Subfield).Ignore == "" &&
		target.Slice != nil && len(*target.Slice) == 3 && (*target.Slice)[0].Elem == "1" && (*target.Slice)[2].Elem == "3" &&
		len(target.StringSlice) == 3 && target.StringSlice[1] == "2" &&
		target.Uint8 == 1 && target.Int8 == 1 && target.Uint16 == 1 && target.Int16 == 1 && target.Uint32 == 1 && target.Int32 == 1 &&
		target.Uint64 == 1 && target.Int64 == 1 && target.Uint == 1 && target.Int == 1
	nd.Assert(ok, "repo-test.expected-values")
	// TestNonPointerSliceUnmarshal
	sl := make([]int, 0)
	elems, _ := xsel.Exec(root, compile("/root/slice/elem"))
	err = xsel.Unmarshal(elems, sl)
	nd.Assert(err != nil && err.Error() == "field <slice> is not settable", "repo-test.non-pointer-slice-error")
	err = xsel.Unmarshal(elems, &sl)
	nd.Assert(err == nil && len(sl) == 3 && sl[0] == 1 && sl[2] == 3, "repo-test.pointer-slice")
}

type Numbers struct {
	I   int     `xsel:"$x"`
	I8  int8    `xsel:"$x"`
	I16 int16   `xsel:"$x"`
	I32 int32   `xsel:"$x"`
	I64 int64   `xsel:"$x"`
	U   uint    `xsel:"$x"`
	U8  uint8   `xsel:"$x"`
	U16 uint16  `xsel:"$x"`
	U32 uint32  `xsel:"$x"`
	U64 uint64  `xsel:"$x"`
	F32 float32 `xsel:"$x"`
	F64 float64 `xsel:"$x"`
	PU  *uint64 `xsel:"$x"`
	B   bool    `xsel:"$x"`
	S   string  `xsel:"$x > 0"`
	LU  []uint64
}

// RunNumbers: every numeric field kind receives the number value converted to
// the field type, for any double within the range of the type (Go leaves the
// conversion of out-of-range values to the implementation: only no error).
func RunNumbers() {
	x := nd.F64()
	root, _ := hx.Build([]hx.Event{{N: hx.Elem{Name: "r"}}, {End: true}})
	var t Numbers
	err := xsel.Unmarshal(xsel.NodeSet{root}, &t, xsel.WithVariable("x", xsel.Number(x)))
	nd.Reach("numbers")
	nd.Assert(err == nil, "numbers.noerr")
	if err != nil {
		return
	}
	tr := math.Trunc(x)
	in := func(lo, hi float64) bool { return nd.And(tr >= lo, tr <= hi) }
	if in(-128, 127) {
		nd.Assert(t.I8 == int8(x), "numbers.int8")
	}
	if in(-32768, 32767) {
		nd.Assert(t.I16 == int16(x), "numbers.int16")
	}
	if in(-2147483648, 2147483647) {
		nd.Assert(t.I32 == int32(x), "numbers.int32")
	}
	if nd.And(tr >= -9223372036854775808.0, tr < 9223372036854775808.0) {
		nd.Assert(t.I64 == int64(x), "numbers.int64")
		nd.Assert(t.I == int(x), "numbers.int")
	}
	if in(0, 255) {
		nd.Assert(t.U8 == uint8(x), "numbers.uint8")
	}
	if in(0, 65535) {
		nd.Assert(t.U16 == uint16(x), "numbers.uint16")
	}
	if in(0, 4294967295) {
		nd.Assert(t.U32 == uint32(x), "numbers.uint32")
	}
	if nd.And(tr >= 0, tr < 18446744073709551616.0) {
		nd.Assert(t.U64 == uint64(x), "numbers.uint64")
		nd.Assert(t.U == uint(x), "numbers.uint")
		nd.Assert(t.PU != nil && *t.PU == uint64(x), "numbers.pointer-to-uint64")
	}
	nd.Assert(nd.SameF64(t.F64, x), "numbers.float64")
	nd.Assert(nd.SameF64(float64(t.F32), float64(float32(x))), "numbers.float32")
	nd.Assert(t.B == (x != 0 && x == x), "numbers.bool")
	want := "false"
	if x > 0 {
		want = "true"
	}
	nd.Assert(t.S == want, "numbers.string-of-boolean")
}

func firstLabel(root xsel.Cursor) (string, error) {
	type Item struct {
		Label string `xsel:"/r/a[1]"`
	}
	var t Item
	err := xsel.Unmarshal(xsel.NodeSet{root}, &t)
	return t.Label, err
}

func numberLabel(root xsel.Cursor) (string, error) {
	type Item struct { // same package, same type name, same field name: another tag
		Label string `xsel:"/r/n"`
	}
	var t Item
	err := xsel.Unmarshal(xsel.NodeSet{root}, &t)
	return t.Label, err
}

// RunSameNamedTypes: a tag belongs to its field of its type: two distinct
// struct types that share package, type name and field name (declared in two
// functions) each get their own query, in either order of use, and again.
func RunSameNamedTypes() {
	b := doc()
	order := nd.Choice(2)
	nd.Reach("same-named-types")
	wantA := ""
	if len(b.as) > 0 {
		wantA = b.as[0]
	}
	for k := 0; k < 3; k++ {
		if (k+order)%2 == 0 {
			s, err := firstLabel(b.root)
			nd.Assert(err == nil && s == wantA, "same-named.first-type-uses-its-own-tag")
		} else {
			s, err := numberLabel(b.root)
			nd.Assert(err == nil && s == b.n, "same-named.second-type-uses-its-own-tag")
		}
	}
}
