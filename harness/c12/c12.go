// Package c12: node functions (name, local-name, namespace-uri, count, lang)
// report node facts (property C12).
package c12

import (
	"github.com/ChrisTrenkamp/xsel"

	"verifharness/c01"
	"verifharness/hx"
	"verifharness/nd"
	"verifharness/spec"
)

type entry struct {
	src string
	ast spec.Expr
	g   *xsel.Grammar
}

var menu []entry
var langExpr, countX *xsel.Grammar

func add(ast spec.Expr) {
	src := spec.Render(ast)
	g := xsel.MustBuildExpr(src)
	menu = append(menu, entry{src: src, ast: ast, g: &g})
}

var (
	tNode = spec.NodeTest{Kind: spec.TNode}
	tAny  = spec.NameTest("", "*")
	dos   = spec.S("descendant-or-self", tNode)
)

func Setup() {
	setupVarMenu()
	menu = nil
	for _, f := range []string{"local-name", "namespace-uri", "name"} {
		add(spec.Fn(f))
		add(spec.Fn(f, spec.Rel(spec.S("self", tNode))))
		add(spec.Fn(f, spec.Rel(spec.S("parent", tNode))))
		add(spec.Fn(f, spec.AbsP(dos, spec.S("child", tAny))))
		add(spec.Fn(f, spec.Rel(spec.S("attribute", tAny))))
		add(spec.Fn(f, spec.Rel(spec.S("namespace", tNode))))
		add(spec.Fn(f, spec.AbsP(spec.S("child", spec.NameTest("", "nosuch")))))
		add(spec.Fn(f, spec.Rel(spec.S("following", tNode))))
	}
	add(spec.Fn("count", spec.AbsP(dos, spec.S("child", tNode))))
	add(spec.Fn("count", spec.Rel(spec.S("ancestor-or-self", tNode))))
	add(spec.Fn("count", spec.Num{V: 1}))
	add(spec.Fn("count", spec.Str{V: "x"}))
	add(spec.Fn("count", spec.Fn("true")))
	add(spec.Fn("name", spec.Num{V: 1}))
	g := xsel.MustBuildExpr("lang($L)")
	langExpr = &g
}

func genOpts() hx.GenOpts {
	o := hx.GenOpts{MaxEvents: 4, MaxDepth: 2, Attrs: 1, NS: 1, Other: true, SymNames: true, SymSpace: true, TopLevel: true}
	if nd.Tier() > 0 {
		o.MaxEvents, o.MaxDepth = 5, 3
	}
	return o
}

func specEvalAt(d *spec.Doc, e spec.Expr, ctx int, b *spec.Bindings) (v spec.Val, failed bool) {
	defer func() {
		if r := recover(); r != nil {
			if _, ok := r.(spec.Err); ok {
				failed = true
				return
			}
			panic(r)
		}
	}()
	v = d.Eval(e, spec.Ctx{Node: ctx, Pos: 1, Size: 1}, b)
	return
}

// RunNames: name functions and count from every context node of every kind.
func RunNames() {
	b := hx.Gen(genOpts())
	nd.Assert(b.TieOK, "store-mirrors-script")
	ctx := nd.Choice(len(b.Doc.Nodes))
	bind := &spec.Bindings{NS: map[string]string{}, Vars: map[string]spec.Val{}}
	nd.Reach("names")
	for k := range menu {
		m := &menu[k]
		r, err := xsel.Exec(b.Cursors[ctx], m.g)
		want, wantFail := specEvalAt(b.Doc, m.ast, ctx, bind)
		c01.CompareResult(b, r, err, want, wantFail, m.src)
	}
}

const xmlNS = "http://www.w3.org/XML/1998/namespace"

// RunLang: lang(L) on a skeleton <a xml:lang?><b xml:lang?><c/>t</b><!--c--></a>
// with symbolic attribute values and L, from every context node.
func RunLang() {
	max := 2
	if nd.Tier() > 0 {
		max = 3
	}
	d := spec.NewDoc()
	var ev []hx.Event
	a := d.Add(0, spec.Node{Kind: spec.Elem, Local: "a"})
	ev = append(ev, hx.Event{N: hx.Elem{Name: "a"}})
	if nd.Choice(2) == 1 {
		v := nd.Str(nd.Choice(max + 1))
		d.Add(a, spec.Node{Kind: spec.Attr, Local: "lang", Space: xmlNS, Value: v})
		ev = append(ev, hx.Event{N: hx.Attr{NS: xmlNS, Name: "lang", Val: v}})
	}
	if nd.Choice(2) == 1 {
		// a decoy: lang in no namespace must be ignored
		d.Add(a, spec.Node{Kind: spec.Attr, Local: "lang", Space: "", Value: "en"})
		ev = append(ev, hx.Event{N: hx.Attr{Name: "lang", Val: "en"}})
	}
	bb := d.Add(a, spec.Node{Kind: spec.Elem, Local: "b"})
	ev = append(ev, hx.Event{N: hx.Elem{Name: "b"}})
	if nd.Choice(2) == 1 {
		v := nd.Str(nd.Choice(max + 1))
		d.Add(bb, spec.Node{Kind: spec.Attr, Local: "lang", Space: xmlNS, Value: v})
		ev = append(ev, hx.Event{N: hx.Attr{NS: xmlNS, Name: "lang", Val: v}})
	}
	d.Add(bb, spec.Node{Kind: spec.Elem, Local: "c"})
	ev = append(ev, hx.Event{N: hx.Elem{Name: "c"}}, hx.Event{End: true})
	d.Add(bb, spec.Node{Kind: spec.Text, Value: "t"})
	ev = append(ev, hx.Event{N: hx.Text{Val: "t"}}, hx.Event{End: true})
	d.Add(a, spec.Node{Kind: spec.Comment, Value: "c"})
	ev = append(ev, hx.Event{N: hx.Comment{Val: "c"}}, hx.Event{End: true})
	b := &hx.Built{Doc: d, Events: ev}
	b.Root, b.Err = hx.Build(ev)
	b.Tie()
	nd.Assert(b.TieOK, "store-mirrors-script")
	ctx := nd.Choice(len(d.Nodes))
	l := nd.Str(nd.Choice(max + 1))
	r, err := xsel.Exec(b.Cursors[ctx], langExpr, xsel.WithVariable("L", xsel.String(l)))
	nd.Reach("lang")
	nd.Assert(err == nil, "lang.noerr")
	got, ok := r.(xsel.Bool)
	nd.Assert(ok, "lang.is-bool")
	nd.Assert(bool(got) == d.Lang(ctx, l), "lang.value")
}

var varMenu []entry

func setupVarMenu() {
	varMenu = nil
	v := spec.Var{Local: "v"}
	for _, ast := range []spec.Expr{spec.Fn("name", v), spec.Fn("local-name", v), spec.Fn("namespace-uri", v), spec.Fn("count", v),
		spec.Path{Start: v, Steps: []spec.Step{spec.S("child", tAny)}}} {
		src := spec.Render(ast)
		g := xsel.MustBuildExpr(src)
		varMenu = append(varMenu, entry{src: src, ast: ast, g: &g})
	}
}

// RunNodeSetVariable: name functions of a node-set bound to a variable in
// whatever order the caller built it use its first node in DOCUMENT order:
// every sequence of 3 (thorough: 4) distinct element nodes of the skeleton.
func RunNodeSetVariable() {
	b := hx.Skeleton()
	nd.Assert(b.TieOK, "store-mirrors-script")
	n := 3
	if nd.Tier() > 0 {
		n = 3 + nd.Choice(2)
	}
	ns, set := hx.PickOrdered(b, b.Elements(), n)
	bind := &spec.Bindings{NS: map[string]string{}, Vars: map[string]spec.Val{"v": {T: spec.TSet, Set: set}}}
	nd.Reach("node-set-variable")
	for k := range varMenu {
		m := &varMenu[k]
		r, err := xsel.Exec(b.Root, m.g, xsel.WithVariable("v", ns))
		want, wantFail := specEvalAt(b.Doc, m.ast, 0, bind)
		c01.CompareResult(b, r, err, want, wantFail, m.src)
	}
}

// langMenu: concrete language tags and arguments, among them letters whose
// upper and lower case are not ASCII (the comparison ignores ASCII case only),
// characters that Unicode folds onto ASCII letters (KELVIN SIGN, LONG S), and
// sub-tag boundaries.
var langMenu = []string{"en", "EN", "en-US", "en-us", "e", "en-", "enx", "é-FR", "É-fr", "É", "é", "K", "k", "ſ", "s", "S-x", "ſ-x", ""}

// RunLangMenu: lang() over every pair (xml:lang value, argument) of the menu.
func RunLangMenu() {
	v := langMenu[nd.Choice(len(langMenu))]
	l := langMenu[nd.Choice(len(langMenu))]
	d := spec.NewDoc()
	a := d.Add(0, spec.Node{Kind: spec.Elem, Local: "a"})
	d.Add(a, spec.Node{Kind: spec.Attr, Local: "lang", Space: xmlNS, Value: v})
	bb := d.Add(a, spec.Node{Kind: spec.Elem, Local: "b"})
	ev := []hx.Event{{N: hx.Elem{Name: "a"}}, {N: hx.Attr{NS: xmlNS, Name: "lang", Val: v}}, {N: hx.Elem{Name: "b"}}, {End: true}, {End: true}}
	b := &hx.Built{Doc: d, Events: ev}
	b.Root, b.Err = hx.Build(ev)
	b.Tie()
	nd.Assert(b.TieOK, "store-mirrors-script")
	r, err := xsel.Exec(b.Cursors[bb], langExpr, xsel.WithVariable("L", xsel.String(l)))
	nd.Reach("lang-menu")
	got, ok := r.(xsel.Bool)
	nd.Assert(err == nil && ok, "lang-menu.is-bool")
	nd.Assert(bool(got) == d.Lang(bb, l), "lang-menu.value")
}
