// Package c15: no input crashes the library: failures are returned as errors
// (property C15). Parts decided here: ill-typed and wrongly-sized function
// calls and operators, arbitrary (also contract-violating) Parser event
// streams, decoder token streams that violate the decoders' contracts. The
// no-panic obligations on expression strings, numeric and string arguments are
// part of the C04-C08 harnesses (every path that ends in a panic or in an
// 'xpath query panic' error is a violation there).
package c15

import (
	"errors"
	"io"
	"math"
	"strings"

	"github.com/ChrisTrenkamp/xsel"
	"github.com/ChrisTrenkamp/xsel/node"
	"github.com/ChrisTrenkamp/xsel/store"

	"verifharness/hx"
	"verifharness/nd"
)

type fn struct {
	name     string
	min, max int  // arity of XPath 1.0
	nodeArgs bool // every argument must be a node-set (count, sum; the name functions' optional argument)
}

var fns = []fn{
	{"last", 0, 0, false}, {"position", 0, 0, false}, {"count", 1, 1, true}, {"local-name", 0, 1, true},
	{"namespace-uri", 0, 1, true}, {"name", 0, 1, true}, {"string", 0, 1, false}, {"concat", 2, 4, false},
	{"starts-with", 2, 2, false}, {"contains", 2, 2, false}, {"substring-before", 2, 2, false},
	{"substring-after", 2, 2, false}, {"substring", 2, 3, false}, {"string-length", 0, 1, false},
	{"normalize-space", 0, 1, false}, {"translate", 3, 3, false}, {"boolean", 1, 1, false}, {"not", 1, 1, false},
	{"true", 0, 0, false}, {"false", 0, 0, false}, {"lang", 1, 1, false}, {"number", 0, 1, false},
	{"sum", 1, 1, true}, {"floor", 1, 1, false}, {"ceiling", 1, 1, false}, {"round", 1, 1, false},
}

var opSrc = []string{"$x | $y", "$x/a", "$x[1]", "$x//a", "-$x", "$x = $y", "$x < $y", "$x + $y", "$x mod $y", "$x and $y",
	"a[$x]", "$x/..", "($x)[$y]", "$x[$y][$x]", "sum($x | $y)", "count($x[$y])"}
var doc xsel.Cursor

func Setup() {
	setupAxes()
	doc, _ = hx.Build([]hx.Event{{N: hx.Elem{Name: "r"}}, {N: hx.Attr{Name: "a", Val: "v"}}, {N: hx.Elem{Name: "a"}}, {N: hx.Text{Val: "1"}}, {End: true}, {End: true}})
}

func compile(s string) *xsel.Grammar {
	return nd.Memo("expr:"+s, func() any {
		g := xsel.MustBuildExpr(s)
		return &g
	}).(*xsel.Grammar)
}

var argLists = []string{"", "$x", "$x, $y", "$x, $y, $z", "$x, $y, $z, $x"}

func isPanicErr(err error) bool {
	return err != nil && strings.Contains(err.Error(), "xpath query panic")
}

// someNumber: a menu of doubles that stress integer conversions (the whole
// double domain is the subject of the C04-C07 harnesses)
func someNumber() float64 {
	return []float64{0, -1.5, 2, math.NaN(), 1e300, -9223372036854775808.0, math.Inf(1)}[nd.Choice(7)]
}

// value of an arbitrary type; isSet reports a node-set
func pick() (xsel.Result, bool) {
	switch nd.Choice(4) {
	case 0:
		return xsel.Number(someNumber()), false
	case 1:
		return xsel.String(nd.Str(nd.Choice(3))), false
	case 2:
		return xsel.Bool(nd.Bool()), false
	}
	all := []xsel.Cursor{doc, doc.Children()[0], doc.Children()[0].Attributes()[0], doc.Children()[0].Children()[0]}
	var ns xsel.NodeSet
	for k := nd.Choice(3); k > 0; k-- {
		ns = append(ns, all[nd.Choice(len(all))])
	}
	return ns, true
}

// RunCalls: every builtin with 0..4 arguments of arbitrary types.
func RunCalls() {
	fi := nd.Choice(len(fns))
	ar := nd.Choice(5)
	f := fns[fi]
	// operand types: x arbitrary; y of the same type as x or a number; z like x
	x, xs := pick()
	y, ys := x, xs
	if nd.Choice(2) == 1 {
		y, ys = xsel.Number(someNumber()), false
	}
	z, zs := x, xs
	if ar >= 3 && f.max >= 3 && nd.Choice(2) == 1 {
		z, zs = xsel.Number(someNumber()), false
	}
	ctx := []xsel.Cursor{doc, doc.Children()[0].Attributes()[0]}[nd.Choice(2)]
	r, err := xsel.Exec(ctx, compile(f.name+"("+argLists[ar]+")"), xsel.WithVariable("x", x), xsel.WithVariable("y", y), xsel.WithVariable("z", z))
	nd.Reach("calls")
	nd.Assert(r != nil || err != nil, "calls.no-nil-nil:"+f.name)
	wellTyped := ar >= f.min && ar <= f.max
	if f.nodeArgs {
		sets := []bool{xs, ys, zs, xs}
		for k := 0; k < ar; k++ {
			if !sets[k] {
				wellTyped = false
			}
		}
	}
	if wellTyped {
		nd.Reach("calls.well-typed")
		nd.Assert(!isPanicErr(err), "calls.well-typed.no-internal-panic:"+f.name)
		nd.Assert(err == nil, "calls.well-typed.no-error:"+f.name)
	}
}

// RunSubstringArgs: substring() on any string of <= 3 bytes with any doubles
// as start and length never fails (the value is the subject of C07).
func RunSubstringArgs() {
	maxLen, nsrc := 2, 2
	if nd.Tier() > 0 {
		maxLen, nsrc = 3, 3
	}
	str := xsel.String(nd.Str(nd.Choice(maxLen + 1)))
	a, b := xsel.Number(nd.F64()), xsel.Number(nd.F64())
	src := []string{"substring($s, $a, $b)", "substring($s, $a)", "//a[substring(., $a, $b) = $s]"}[nd.Choice(nsrc)]
	r, err := xsel.Exec(doc, compile(src), xsel.WithVariable("s", str), xsel.WithVariable("a", a), xsel.WithVariable("b", b))
	nd.Reach("substring-args")
	nd.Assert(r != nil || err != nil, "substring.no-nil-nil")
	nd.Assert(!isPanicErr(err), "substring.no-internal-panic")
	nd.Assert(err == nil, "substring.no-error")
}

// RunOperators: path and arithmetic operators on operands of arbitrary types.
func RunOperators() {
	g := compile(opSrc[nd.Choice(len(opSrc))])
	x, _ := pick()
	y, _ := pick()
	r, err := xsel.Exec(doc.Children()[0], g, xsel.WithVariable("x", x), xsel.WithVariable("y", y))
	nd.Reach("operators")
	nd.Assert(r != nil || err != nil, "operators.no-nil-nil")
}

// anyParser feeds an arbitrary event stream: any node kind anywhere, nil
// nodes, end events anywhere, an error or EOF at any point.
type anyParser struct {
	n   int
	pos int
}

var errBoom = errors.New("boom")

func (p *anyParser) Pull() (node.Node, bool, error) {
	if p.pos >= p.n {
		return nil, false, io.EOF
	}
	p.pos++
	switch nd.Choice(10) {
	case 0:
		return hx.Elem{Name: "e"}, false, nil
	case 1:
		return nil, true, nil
	case 2:
		return hx.Text{Val: "t"}, false, nil
	case 3:
		return hx.Attr{Name: "a", Val: "v"}, false, nil
	case 4:
		return hx.NS{Pfx: "p", URI: "u"}, false, nil
	case 5:
		return hx.Comment{Val: "c"}, false, nil
	case 6:
		return hx.PI{Tgt: "t", Val: "d"}, false, nil
	case 7:
		return nil, false, nil // a nil node that is not an end event
	case 8:
		return nil, false, errBoom
	}
	return hx.Elem{Name: "e"}, true, nil // a node together with the end flag
}

// RunStore: CreateInMemory terminates without panicking on any event stream
// and reports the parser's error.
func RunStore() {
	n := 4
	if nd.Tier() > 0 {
		n = 5
	}
	p := &anyParser{n: n}
	c, err := store.CreateInMemory(p)
	nd.Reach("store")
	nd.Assert(c != nil || err != nil, "store.no-nil-nil")
	if c != nil {
		// the tree can be traversed and queried
		g := compileAll()
		r, e := xsel.Exec(c, g)
		nd.Assert(r != nil || e != nil, "store.query.no-nil-nil")
		nd.Assert(!isPanicErr(e), "store.query.no-internal-panic")
	}
}

func compileAll() *xsel.Grammar {
	return nd.Memo("all", func() any {
		g := xsel.MustBuildExpr("count(//node() | //@* | //namespace::*) + string-length(string(/))")
		return &g
	}).(*xsel.Grammar)
}

// goMax / goMin: the portable definitions from the Go standard library
// (math/dim.go), which the engine's models of math.Max / math.Min must equal.
func goMax(x, y float64) float64 {
	switch {
	case math.IsInf(x, 1) || math.IsInf(y, 1):
		return math.Inf(1)
	case x != x || y != y:
		return math.NaN()
	case x == 0 && x == y:
		if math.Signbit(x) {
			return y
		}
		return x
	}
	if x > y {
		return x
	}
	return y
}

func goMin(x, y float64) float64 {
	switch {
	case math.IsInf(x, -1) || math.IsInf(y, -1):
		return math.Inf(-1)
	case x != x || y != y:
		return math.NaN()
	case x == 0 && x == y:
		if math.Signbit(x) {
			return x
		}
		return y
	}
	if x < y {
		return x
	}
	return y
}

// RunMaxMinLemma (translator validation): the engine's closed-form models of
// math.Max and math.Min equal the library definitions on all pairs of doubles.
func RunMaxMinLemma() {
	x, y := nd.F64(), nd.F64()
	nd.Reach("max-min-lemma")
	nd.Assert(nd.SameF64(math.Max(x, y), goMax(x, y)), "lemma.math.Max")
	nd.Assert(nd.SameF64(math.Min(x, y), goMin(x, y)), "lemma.math.Min")
}

var axisQueries []*xsel.Grammar
var axisSrc []string

func setupAxes() {
	axisQueries, axisSrc = nil, nil
	for _, ax := range []string{"ancestor", "ancestor-or-self", "attribute", "child", "descendant", "descendant-or-self", "following",
		"following-sibling", "namespace", "parent", "preceding", "preceding-sibling", "self"} {
		for _, s := range []string{ax + "::node()", ax + "::*[1]", ax + "::node()/" + "following-sibling::node()", "count(" + ax + "::node()/preceding-sibling::*)"} {
			g := xsel.MustBuildExpr(s)
			axisQueries = append(axisQueries, &g)
			axisSrc = append(axisSrc, s)
		}
	}
}

// RunAxesNoPanic: every axis (alone, with a positional predicate, followed by
// the sibling axes) from every node of every kind of every small document -
// also attribute and namespace nodes of childless elements - is a well-typed
// query: a value, never an error or an 'xpath query panic'.
func RunAxesNoPanic() {
	b := hx.Gen(hx.GenOpts{MaxEvents: 4, MaxDepth: 2, Attrs: 1, NS: 1, Other: true, TopLevel: true})
	nd.Assert(b.TieOK, "store-mirrors-script")
	ctx := b.Cursors[nd.Choice(len(b.Doc.Nodes))]
	nd.Reach("axes")
	for k, g := range axisQueries {
		r, err := xsel.Exec(ctx, g)
		nd.Assert(r != nil || err != nil, "axes.no-nil-nil")
		nd.Assert(!isPanicErr(err), "axes.no-internal-panic:"+axisSrc[k])
		nd.Assert(err == nil, "axes.no-error:"+axisSrc[k])
	}
}
