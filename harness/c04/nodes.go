package c04

import (
	"github.com/ChrisTrenkamp/xsel"

	"verifharness/c01"
	"verifharness/hx"
	"verifharness/nd"
	"verifharness/spec"
)

type nodeEntry struct {
	src string
	ast spec.Expr
	g   *xsel.Grammar
}

var nodeMenu []nodeEntry

func addNode(ast spec.Expr) {
	src := spec.Render(ast)
	g := xsel.MustBuildExpr(src)
	nodeMenu = append(nodeMenu, nodeEntry{src: src, ast: ast, g: &g})
}

func setupNodes() {
	if nodeMenu != nil {
		return
	}
	tNode := spec.NodeTest{Kind: spec.TNode}
	tAny := spec.NameTest("", "*")
	dos := spec.S("descendant-or-self", tNode)
	sets := []spec.Expr{
		spec.Rel(spec.S("self", tNode)),
		spec.Rel(spec.S("child", tNode)),
		spec.Rel(spec.S("ancestor", tAny)),
		spec.Rel(spec.S("ancestor-or-self", tNode)),
		spec.Rel(spec.S("preceding", tNode)),
		spec.Rel(spec.S("preceding-sibling", tNode)),
		spec.Rel(spec.S("following", tNode)),
		spec.AbsP(dos, spec.S("attribute", tAny)),
		spec.AbsP(spec.S("child", spec.NameTest("", "nosuch"))),
		spec.Rel(spec.S("namespace", tNode)),
	}
	for _, s := range sets {
		addNode(spec.Fn("string", s))
		addNode(spec.Fn("boolean", s))
		addNode(spec.Fn("number", s))
		addNode(spec.Fn("concat", s, spec.Str{V: "|"}))
		addNode(spec.Bin{Op: "+", L: s, R: spec.Num{V: 0}})
		addNode(spec.Fn("not", s))
		addNode(spec.Fn("string-length", s))
	}
	addNode(spec.Fn("string"))
	addNode(spec.Fn("number"))
	addNode(spec.Fn("string-length"))
	addNode(spec.Fn("normalize-space"))
}

func genNodeOpts() hx.GenOpts {
	o := hx.GenOpts{MaxEvents: 3, MaxDepth: 2, Attrs: 1, NS: 1, Other: true, TopLevel: true, TextLen: 1}
	if nd.Tier() > 0 {
		o.MaxEvents, o.MaxDepth = 4, 3
	}
	return o
}

// RunNodes: the string-value of every node kind, and the conversions of
// node-sets (first node in document order, also for reverse-axis results) as
// applied explicitly and implicitly to arguments and operands.
func RunNodes() {
	b := hx.Gen(genNodeOpts())
	nd.Assert(b.TieOK, "store-mirrors-script")
	nd.Reach("nodes")
	// GetCursorString of every node
	for i := range b.Doc.Nodes {
		nd.Assert(xsel.GetCursorString(b.Cursors[i]) == b.Doc.StringValue(i), "node.string-value:"+b.Doc.Nodes[i].Kind.String())
	}
	ctx := nd.Choice(len(b.Doc.Nodes))
	bind := &spec.Bindings{NS: map[string]string{}, Vars: map[string]spec.Val{}}
	for k := range nodeMenu {
		m := &nodeMenu[k]
		r, err := xsel.Exec(b.Cursors[ctx], m.g)
		want := b.Doc.Eval(m.ast, spec.Ctx{Node: ctx, Pos: 1, Size: 1}, bind)
		c01.CompareResult(b, r, err, want, false, m.src)
	}
}

var varMenu []nodeEntry

func setupVarMenu() {
	if varMenu != nil {
		return
	}
	v := spec.Var{Local: "v"}
	for _, ast := range []spec.Expr{
		spec.Fn("string", v), spec.Fn("number", v), spec.Bin{Op: "+", L: v, R: spec.Num{V: 0}},
		spec.Fn("concat", v, spec.Str{V: "|"}), spec.Fn("boolean", v), spec.Fn("string-length", v),
		spec.Bin{Op: "=", L: v, R: spec.Str{V: "t1"}}, spec.Fn("starts-with", v, spec.Str{V: "t"}),
	} {
		src := spec.Render(ast)
		g := xsel.MustBuildExpr(src)
		varMenu = append(varMenu, nodeEntry{src: src, ast: ast, g: &g})
	}
}

// RunNodeSetVariable: a node-set bound to a variable in whatever order the
// caller built it converts through its first node in DOCUMENT order: every
// sequence of 3 (thorough: 4) distinct element nodes of the skeleton document.
func RunNodeSetVariable() {
	b := hx.Skeleton()
	nd.Assert(b.TieOK, "store-mirrors-script")
	n := 3
	if nd.Tier() > 0 {
		n = 3 + nd.Choice(2)
	}
	ns, set := hx.PickOrdered(b, b.Elements(), n)
	bind := &spec.Bindings{NS: map[string]string{}, Vars: map[string]spec.Val{"v": {T: spec.TSet, Set: set}}}
	nd.Reach("node-set-variable")
	for k := range varMenu {
		m := &varMenu[k]
		r, err := xsel.Exec(b.Root, m.g, xsel.WithVariable("v", ns))
		want := b.Doc.Eval(m.ast, spec.Ctx{Node: 0, Pos: 1, Size: 1}, bind)
		c01.CompareResult(b, r, err, want, false, m.src)
	}
}
