// Package c04: string(), number(), boolean() and the implicit conversions
// (property C04), scalar part: numbers, strings, booleans.
package c04

import (
	"math"
	"strings"

	"github.com/ChrisTrenkamp/xsel"

	"verifharness/hx"
	"verifharness/nd"
	"verifharness/spec"
)

var (
	root  xsel.Cursor
	exprs map[string]*xsel.Grammar
)

func Setup() {
	setupNodes()
	setupVarMenu()
	root = hx.EmptyDoc()
	exprs = map[string]*xsel.Grammar{}
	for _, s := range []string{"string($x)", "number($x)", "boolean($x)", "not($x)", "not(not($x))",
		"$x + 0", "concat($x, '')", "$x = true()", "string-length($x)", "- $x", "$x",
		"$x and true()", "true() and $x", "$x or false()", "false() or $x", "count(/self::node()[$x])"} {
		g := xsel.MustBuildExpr(s)
		exprs[s] = &g
	}
}

func isPanicErr(err error) bool {
	return err != nil && strings.Contains(err.Error(), "xpath query panic")
}

func run(e string, x xsel.Result) (xsel.Result, error) {
	return xsel.Exec(root, exprs[e], xsel.WithVariable("x", x))
}

func wantString(r xsel.Result, err error, want string, id string) {
	nd.Assert(!isPanicErr(err), id+".no-internal-panic")
	nd.Assert(err == nil, id+".noerr")
	s, ok := r.(xsel.String)
	nd.Assert(ok, id+".is-string")
	nd.Assert(string(s) == want, id+".value")
}

func wantNumber(r xsel.Result, err error, want float64, id string) {
	nd.Assert(!isPanicErr(err), id+".no-internal-panic")
	nd.Assert(err == nil, id+".noerr")
	n, ok := r.(xsel.Number)
	nd.Assert(ok, id+".is-number")
	nd.Assert(nd.SameF64(float64(n), want), id+".value")
}

func wantBool(r xsel.Result, err error, want bool, id string) {
	nd.Assert(!isPanicErr(err), id+".no-internal-panic")
	nd.Assert(err == nil, id+".noerr")
	b, ok := r.(xsel.Bool)
	nd.Assert(ok, id+".is-bool")
	nd.Assert(bool(b) == want, id+".value")
}

// RunNumber: conversions of a number over the whole double domain.
func RunNumber() {
	x := nd.F64()
	v := xsel.Number(x)
	switch nd.Choice(6) {
	case 0:
		r, err := run("string($x)", v)
		nd.Reach("num.string")
		want := spec.NumberToString(x)
		wantString(r, err, want, "num.string")
		// structural facts that hold for every double (also outside the digit model)
		s := string(r.(xsel.String))
		nd.Assert(!strings.ContainsAny(s, "eE+"), "num.string.no-exponent")
	case 1:
		r, err := run("concat($x, '')", v)
		nd.Reach("num.concat")
		wantString(r, err, spec.NumberToString(x), "num.concat")
	case 2:
		r, err := run("boolean($x)", v)
		nd.Reach("num.boolean")
		wantBool(r, err, spec.BoolOfNumber(x), "num.boolean")
	case 3:
		r, err := run("not($x)", v)
		nd.Reach("num.not")
		wantBool(r, err, nd.Not(spec.BoolOfNumber(x)), "num.not")
	case 4:
		r, err := run("number($x)", v)
		nd.Reach("num.number")
		wantNumber(r, err, x, "num.number")
	case 5:
		r, err := run("$x = true()", v)
		nd.Reach("num.eqtrue")
		wantBool(r, err, spec.BoolOfNumber(x), "num.eqtrue")
	}
}

// RunOperands: the implicit boolean conversion of operator operands and
// predicate values ($x of each type as an operand of and/or and as a predicate).
func RunOperands() {
	var v xsel.Result
	var truth bool
	isNum := false
	switch nd.Choice(3) {
	case 0:
		x := nd.F64()
		v, truth, isNum = xsel.Number(x), spec.BoolOfNumber(x), true
	case 1:
		s := nd.Str(nd.Choice(3))
		v, truth = xsel.String(s), len(s) > 0
	case 2:
		b := nd.Bool()
		v, truth = xsel.Bool(b), b
	}
	switch nd.Choice(5) {
	case 0:
		r, err := run("$x and true()", v)
		nd.Reach("operand.and")
		wantBool(r, err, truth, "operand.and-left")
	case 1:
		r, err := run("true() and $x", v)
		wantBool(r, err, truth, "operand.and-right")
	case 2:
		r, err := run("$x or false()", v)
		nd.Reach("operand.or")
		wantBool(r, err, truth, "operand.or-left")
	case 3:
		r, err := run("false() or $x", v)
		wantBool(r, err, truth, "operand.or-right")
	case 4:
		// as a predicate: a number selects by position (the root is at position 1),
		// everything else through boolean()
		r, err := run("count(/self::node()[$x])", v)
		nd.Reach("operand.predicate")
		if isNum {
			x := float64(v.(xsel.Number))
			wantNumber(r, err, nd.IteF64(x == 1, 1, 0), "operand.predicate-number")
		} else {
			wantNumber(r, err, nd.IteF64(truth, 1, 0), "operand.predicate-boolean")
		}
	}
}

// RunString: conversions of a string of arbitrary bytes.
func RunString() {
	maxLen := 4
	if nd.Tier() > 0 {
		maxLen = 6
	}
	s := nd.Str(nd.Choice(maxLen + 1))
	v := xsel.String(s)
	switch nd.Choice(5) {
	case 0:
		r, err := run("number($x)", v)
		nd.Reach("str.number")
		wantNumber(r, err, spec.Number(s), "str.number")
	case 1:
		r, err := run("$x + 0", v)
		nd.Reach("str.plus0")
		wantNumber(r, err, spec.Number(s)+0, "str.plus0")
	case 2:
		r, err := run("boolean($x)", v)
		nd.Reach("str.boolean")
		wantBool(r, err, len(s) > 0, "str.boolean")
	case 3:
		r, err := run("string($x)", v)
		nd.Reach("str.string")
		wantString(r, err, s, "str.string")
	case 4:
		r, err := run("not(not($x))", v)
		nd.Reach("str.notnot")
		wantBool(r, err, len(s) > 0, "str.notnot")
	}
}

// RunBool: conversions of a boolean.
func RunBool() {
	b := nd.Bool()
	v := xsel.Bool(b)
	switch nd.Choice(4) {
	case 0:
		r, err := run("string($x)", v)
		nd.Reach("bool.string")
		want := "false"
		if b {
			want = "true"
		}
		wantString(r, err, want, "bool.string")
	case 1:
		r, err := run("number($x)", v)
		nd.Reach("bool.number")
		wantNumber(r, err, nd.IteF64(b, 1, 0), "bool.number")
	case 2:
		r, err := run("boolean($x)", v)
		nd.Reach("bool.boolean")
		wantBool(r, err, b, "bool.boolean")
	case 3:
		r, err := run("$x + 0", v)
		nd.Reach("bool.plus0")
		wantNumber(r, err, nd.IteF64(b, 1, 0), "bool.plus0")
	}
}

var _ = math.NaN
