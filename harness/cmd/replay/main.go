// replay: run one harness natively on a recorded nd vector.
package main

import (
	"fmt"
	"os"
	"strings"

	"verifharness/nd"
)

type entry struct {
	setup func()
	run   func()
}

func main() {
	if len(os.Args) != 3 {
		fmt.Println("usage: replay <harness> <vector.json>")
		os.Exit(2)
	}
	e, ok := registry[os.Args[1]]
	if !ok {
		fmt.Println("RESULT unknown-harness")
		os.Exit(2)
	}
	if err := nd.LoadFile(os.Args[2]); err != nil {
		fmt.Println("RESULT bad-vector", err)
		os.Exit(2)
	}
	if e.setup != nil {
		e.setup()
	}
	res := "ok"
	func() {
		defer func() {
			if r := recover(); r != nil {
				if _, isStop := r.(nd.Stop); isStop {
					return
				}
				res = "panic " + strings.ReplaceAll(fmt.Sprint(r), "\n", " ")
			}
		}()
		e.run()
	}()
	switch {
	case nd.Diverged != "":
		fmt.Println("RESULT diverged", nd.Diverged)
	case len(nd.Failed) > 0:
		fmt.Println("RESULT assert-fail", strings.Join(nd.Failed, ","))
	default:
		fmt.Println("RESULT", res)
	}
}
