// replay: run one harness natively on a recorded nd vector.
package main

import (
	"fmt"
	"os"
	"strings"

	"verifharness/c01"
	"verifharness/c02"
	"verifharness/c03"
	"verifharness/c04"
	"verifharness/c05"
	"verifharness/c06"
	"verifharness/c07"
	"verifharness/c08"
	"verifharness/c09"
	"verifharness/c10"
	"verifharness/c11"
	"verifharness/c12"
	"verifharness/c13"
	"verifharness/c16"
	"verifharness/c17"
	"verifharness/c18"
	"verifharness/nd"
)

type entry struct {
	setup func()
	run   func()
}

var registry = map[string]entry{
	"c08.RunPrecedence":       {c08.Setup, c08.RunPrecedence},
	"c13.RunPurity":           {c13.Setup, c13.RunPurity},
	"c13.RunFootprint":        {c13.Setup, c13.RunFootprint},
	"c13.RunBuildDeterminism": {c13.Setup, c13.RunBuildDeterminism},
	"c12.RunNames":            {c12.Setup, c12.RunNames},
	"c12.RunLang":             {c12.Setup, c12.RunLang},
	"c11.RunNameTests":        {c11.Setup, c11.RunNameTests},
	"c11.RunVariables":        {c11.Setup, c11.RunVariables},
	"c11.RunFunctions":        {c11.Setup, c11.RunFunctions},
	"c17.RunHTML":             {c17.Setup, c17.RunHTML},
	"c09.RunXML":              {c09.Setup, c09.RunXML},
	"c16.RunJSON":             {c16.Setup, c16.RunJSON},
	"c10.RunContract":         {c10.Setup, c10.RunContract},
	"c10.RunStack":            {c10.Setup, c10.RunStack},
	"c07.RunSearch":           {c07.Setup, c07.RunSearch},
	"c07.RunSubstring":        {c07.Setup, c07.RunSubstring},
	"c07.RunLengthSpace":      {c07.Setup, c07.RunLengthSpace},
	"c07.RunTranslate":        {c07.Setup, c07.RunTranslate},
	"c05.RunCompare":          {c05.Setup, c05.RunCompare},
	"c18.RunFromNode":         {c18.Setup, c18.RunFromNode},
	"c18.RunCompose":          {c18.Setup, c18.RunCompose},
	"c18.RunFnStep":           {c18.Setup, c18.RunFnStep},
	"c03.RunOrder":            {c03.Setup, c03.RunOrder},
	"c03.RunUnion":            {c03.Setup, c03.RunUnion},
	"c02.RunPredicates":       {c02.Setup, c02.RunPredicates},
	"c01.RunSteps":            {c01.Setup, c01.RunSteps},
	"c04.RunNumber":           {c04.Setup, c04.RunNumber},
	"c04.RunString":           {c04.Setup, c04.RunString},
	"c04.RunBool":             {c04.Setup, c04.RunBool},
	"c06.RunArith":            {c06.Setup, c06.RunArith},
	"c06.RunMod":              {c06.Setup, c06.RunMod},
	"c06.RunRounding":         {c06.Setup, c06.RunRounding},
	"c06.RunSum":              {c06.Setup, c06.RunSum},
	"c06.RunVacuity":          {c06.Setup, c06.RunVacuity},
}

func main() {
	if len(os.Args) != 3 {
		fmt.Println("usage: replay <harness> <vector.json>")
		os.Exit(2)
	}
	e, ok := registry[os.Args[1]]
	if !ok {
		fmt.Println("RESULT unknown-harness")
		os.Exit(2)
	}
	if err := nd.LoadFile(os.Args[2]); err != nil {
		fmt.Println("RESULT bad-vector", err)
		os.Exit(2)
	}
	if e.setup != nil {
		e.setup()
	}
	res := "ok"
	func() {
		defer func() {
			if r := recover(); r != nil {
				if _, isStop := r.(nd.Stop); isStop {
					return
				}
				res = "panic " + strings.ReplaceAll(fmt.Sprint(r), "\n", " ")
			}
		}()
		e.run()
	}()
	switch {
	case nd.Diverged != "":
		fmt.Println("RESULT diverged", nd.Diverged)
	case len(nd.Failed) > 0:
		fmt.Println("RESULT assert-fail", strings.Join(nd.Failed, ","))
	default:
		fmt.Println("RESULT", res)
	}
}
