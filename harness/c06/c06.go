// Package c06: arithmetic and numeric functions are IEEE-754 double arithmetic
// per XPath 1.0 (property C06).
package c06

import (
	"math"
	"strings"

	"github.com/ChrisTrenkamp/xsel"

	"verifharness/hx"
	"verifharness/nd"
	"verifharness/spec"
)

var (
	root  xsel.Cursor
	exprs map[string]*xsel.Grammar
)

func compile(s string) *xsel.Grammar {
	g := xsel.MustBuildExpr(s)
	return &g
}

func Setup() {
	root = hx.EmptyDoc()
	exprs = map[string]*xsel.Grammar{}
	for _, s := range []string{"$x + $y", "$x - $y", "$x * $y", "$x div $y", "$x mod $y", "- $x",
		"floor($x)", "ceiling($x)", "round($x)", "sum($n)", "count($n)", "sum(/r/*)", "count(/r/*)"} {
		exprs[s] = compile(s)
	}
}

func isPanicErr(err error) bool {
	return err != nil && strings.Contains(err.Error(), "xpath query panic")
}

func exec2(e string, x, y float64) (xsel.Result, error) {
	return xsel.Exec(root, exprs[e], xsel.WithVariable("x", xsel.Number(x)), xsel.WithVariable("y", xsel.Number(y)))
}

func checkNumber(r xsel.Result, err error, want float64, id string) {
	nd.Assert(!isPanicErr(err), id+".no-internal-panic")
	nd.Assert(err == nil, id+".noerr")
	n, ok := r.(xsel.Number)
	nd.Assert(ok, id+".is-number")
	nd.Assert(nd.SameF64(float64(n), want), id+".value")
}

// RunArith: + - * div and unary minus over the whole double domain.
func RunArith() {
	x, y := nd.F64(), nd.F64()
	switch nd.Choice(5) {
	case 0:
		r, err := exec2("$x + $y", x, y)
		nd.Reach("add")
		checkNumber(r, err, x+y, "add")
	case 1:
		r, err := exec2("$x - $y", x, y)
		nd.Reach("sub")
		checkNumber(r, err, x-y, "sub")
	case 2:
		r, err := exec2("$x * $y", x, y)
		nd.Reach("mul")
		checkNumber(r, err, x*y, "mul")
	case 3:
		r, err := exec2("$x div $y", x, y)
		nd.Reach("div")
		checkNumber(r, err, x/y, "div")
	case 4:
		r, err := exec2("- $x", x, y)
		nd.Reach("neg")
		checkNumber(r, err, -x, "neg")
	}
}

// RunMod: mod is the remainder of truncating division on the real operands
// (sign of the dividend); decided on the dyadic domain of math.Mod's model plus
// the special classes.
func RunMod() {
	x, y := nd.F64(), nd.F64()
	r, err := exec2("$x mod $y", x, y)
	nd.Reach("mod")
	checkNumber(r, err, math.Mod(x, y), "mod")
}

// RunRounding: floor, ceiling, round over the whole double domain.
func RunRounding() {
	x := nd.F64()
	switch nd.Choice(3) {
	case 0:
		r, err := exec2("floor($x)", x, 0)
		nd.Reach("floor")
		checkNumber(r, err, math.Floor(x), "floor")
	case 1:
		r, err := exec2("ceiling($x)", x, 0)
		nd.Reach("ceiling")
		checkNumber(r, err, math.Ceil(x), "ceiling")
	case 2:
		// recorded finding: ties below zero round away from zero (pinned by TestFunctionRound)
		nd.Known("C06.round.negative-tie", nd.And(x < 0, spec.IsTie(x)))
		r, err := exec2("round($x)", x, 0)
		nd.Reach("round")
		checkNumber(r, err, spec.Round(x), "round")
	}
}

// RunSum: sum() adds number(string-value) of every node without truncation;
// count() is the set size. Node texts are symbolic byte strings.
func RunSum() {
	maxLen := 2
	if nd.Tier() > 0 {
		maxLen = 3
	}
	n := nd.Choice(3) // 0..2 nodes
	ev := []hx.Event{{N: hx.Elem{Name: "r"}}}
	want := 0.0
	for k := 0; k < n; k++ {
		s := nd.Str(nd.Choice(maxLen + 1))
		ev = append(ev, hx.Event{N: hx.Elem{Name: "a"}}, hx.Event{N: hx.Text{Val: s}}, hx.Event{End: true})
		want = want + spec.Number(s)
	}
	ev = append(ev, hx.Event{End: true})
	doc, err := hx.Build(ev)
	nd.Assert(err == nil, "sum.build")
	r, err := xsel.Exec(doc, exprs["sum(/r/*)"])
	nd.Reach("sum")
	checkNumber(r, err, want, "sum")
	r, err = xsel.Exec(doc, exprs["count(/r/*)"])
	checkNumber(r, err, float64(n), "count")
}

// RunSumSpecials: sum() adds number() of EVERY node, also once the running
// total is an infinity or NaN: three nodes, each from a menu that includes
// numerals of 310 digits (which convert to +-Infinity), non-numbers and -0.
func RunSumSpecials() {
	huge := strings.Repeat("9", 310)
	texts := []string{huge, "-" + huge, "x", "1", "-0", "2.5"}
	ev := []hx.Event{{N: hx.Elem{Name: "r"}}}
	want := 0.0
	n := 2 + nd.Choice(2)
	for k := 0; k < n; k++ {
		s := texts[nd.Choice(len(texts))]
		ev = append(ev, hx.Event{N: hx.Elem{Name: "a"}}, hx.Event{N: hx.Text{Val: s}}, hx.Event{End: true})
		want = want + spec.Number(s)
	}
	ev = append(ev, hx.Event{End: true})
	doc, err := hx.Build(ev)
	nd.Assert(err == nil, "sum.build")
	r, err := xsel.Exec(doc, exprs["sum(/r/*)"])
	nd.Reach("sum-specials")
	checkNumber(r, err, want, "sum-specials")
}

// RunRoundLemma: the two formulations of XPath round() in the reference model
// agree on every double (used by C07's substring oracle).
func RunRoundLemma() {
	x := nd.F64()
	a, b := spec.Round(x), spec.RoundForCompare(x)
	nd.Reach("round-lemma")
	nd.Assert(nd.Or(a == b, nd.And(a != a, b != b)), "round-lemma.equivalent")
}

// RunVacuity must produce a violation: guards against an engine or harness
// that silently proves everything.
func RunVacuity() {
	x, y := nd.F64(), nd.F64()
	r, err := exec2("$x + $y", x, y)
	checkNumber(r, err, x+y, "add")
	nd.Assert(false, "vacuity.reachable")
}
