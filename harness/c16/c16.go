// Package c16: ReadJson maps JSON to the documented #obj/#arr element tree
// (property C16). The tokenizer (encoding/json) is a scripted stub constrained
// by the decoder's contract; natively the script is rendered to JSON text and
// the real decoder runs.
package c16

import (
	"strconv"

	"github.com/ChrisTrenkamp/xsel"
	"github.com/ChrisTrenkamp/xsel/node"

	"verifharness/hx"
	"verifharness/nd"
	"verifharness/spec"
)

func Setup() {}

func asciiKey() string {
	b := nd.Byte()
	nd.Assume(nd.And(b >= 'a', b <= 'c'))
	return string([]byte{b})
}

func asciiText(n int) string {
	s := nd.Str(n)
	for i := 0; i < len(s); i++ {
		// printable ASCII without the two characters that need escaping
		nd.Assume(nd.And(nd.And(s[i] >= 0x20, s[i] < 0x7f), nd.And(s[i] != '"', s[i] != '\\')))
	}
	return s
}

type frame struct {
	obj     bool
	wantKey bool
	node    int // abstract element that receives the next value
	holder  int // for objects: the #obj element; for arrays: the #arr element
}

// gen builds a token script of at most max tokens together with the tree the
// README documents for it. end: 0 complete, 1 truncated (EOF with open
// containers or inside a member), 2 syntax error.
func gen(max int) (toks []hx.JTok, d *spec.Doc, end int) {
	d = spec.NewDoc()
	var stack []frame
	for n := 0; n < max; n++ {
		var inObjKey bool
		parent := 0
		if len(stack) > 0 {
			top := &stack[len(stack)-1]
			inObjKey = top.obj && top.wantKey
			parent = top.node
		}
		// what comes next
		const (
			cStop = iota
			cErr
			cClose
			cKey
			cObj
			cArr
			cStr
			cNum
			cBool
			cNull
		)
		menu := []int{cStop, cErr}
		if len(stack) > 0 && (inObjKey || !stack[len(stack)-1].obj) {
			menu = append(menu, cClose)
		}
		if inObjKey {
			menu = append(menu, cKey)
		} else if nd.Tier() > 0 {
			menu = append(menu, cObj, cArr, cStr, cNum, cBool, cNull)
		} else {
			// quick tier: two scalar kinds, which leaves room for one more token
			menu = append(menu, cObj, cArr, cStr, cNum)
		}
		c := menu[nd.Choice(len(menu))]
		if c == cStop {
			break
		}
		if c == cErr {
			toks = append(toks, hx.JTok{Kind: hx.JErr})
			return toks, d, 2
		}
		valueDone := func() {
			// after a value inside an object the next token is a key again
			if len(stack) > 0 && stack[len(stack)-1].obj {
				stack[len(stack)-1].wantKey = true
				stack[len(stack)-1].node = stack[len(stack)-1].holder
			}
		}
		switch c {
		case cClose:
			top := stack[len(stack)-1]
			if top.obj {
				toks = append(toks, hx.JTok{Kind: hx.JObjClose})
			} else {
				toks = append(toks, hx.JTok{Kind: hx.JArrClose})
			}
			stack = stack[:len(stack)-1]
			valueDone()
		case cKey:
			k := asciiKey()
			toks = append(toks, hx.JTok{Kind: hx.JStr, S: k})
			top := &stack[len(stack)-1]
			top.node = d.Add(top.holder, spec.Node{Kind: spec.Elem, Local: k})
			top.wantKey = false
		case cObj:
			toks = append(toks, hx.JTok{Kind: hx.JObjOpen})
			id := d.Add(parent, spec.Node{Kind: spec.Elem, Local: "#obj"})
			stack = append(stack, frame{obj: true, wantKey: true, node: id, holder: id})
		case cArr:
			toks = append(toks, hx.JTok{Kind: hx.JArrOpen})
			id := d.Add(parent, spec.Node{Kind: spec.Elem, Local: "#arr"})
			stack = append(stack, frame{node: id, holder: id})
		case cStr:
			s := asciiText(nd.Choice(2)) // the empty string is a value too
			toks = append(toks, hx.JTok{Kind: hx.JStr, S: s})
			d.Add(parent, spec.Node{Kind: spec.Text, Value: s})
			valueDone()
		case cNum:
			// numbers: a menu of concrete doubles (formatting is strconv's, trusted);
			// includes a value that 'g' renders with an exponent
			// as spelled in the source: canonical, with a redundant fraction digit,
			// with an exponent (thorough: more)
			ni := nd.Choice(2 + 3*nd.Tier())
			f := []float64{2.5, 1, 2.5, -1, 1e6}[ni]
			spelled := []string{"2.50", "100e-2", "2.5", "-1.0", "1000000"}[ni]
			toks = append(toks, hx.JTok{Kind: hx.JNum, F: f, S: spelled})
			d.Add(parent, spec.Node{Kind: spec.Text, Value: strconv.FormatFloat(f, 'g', -1, 64)})
			valueDone()
		case cBool:
			b := nd.Bool()
			toks = append(toks, hx.JTok{Kind: hx.JBool, B: b})
			v := "false"
			if b {
				v = "true"
			}
			d.Add(parent, spec.Node{Kind: spec.Text, Value: v})
			valueDone()
		case cNull:
			toks = append(toks, hx.JTok{Kind: hx.JNull})
			d.Add(parent, spec.Node{Kind: spec.Text, Value: "null"})
			valueDone()
		}
	}
	if len(stack) > 0 {
		return toks, d, 1
	}
	return toks, d, 0
}

// same compares the cursor tree with the abstract tree.
func same(c xsel.Cursor, d *spec.Doc, i int) bool {
	n := &d.Nodes[i]
	ch := c.Children()
	if len(c.Attributes()) != 0 || len(c.Namespaces()) != 0 || len(ch) != len(n.Children) {
		return false
	}
	switch n.Kind {
	case spec.Elem:
		e, ok := c.Node().(node.Element)
		if !ok || e.Local() != n.Local || e.Space() != "" {
			return false
		}
	case spec.Text:
		t, ok := c.Node().(node.CharData)
		if !ok || t.CharDataValue() != n.Value {
			return false
		}
	}
	for k, x := range n.Children {
		if !same(ch[k], d, x) {
			return false
		}
	}
	return true
}

// RunJSON: every token stream within the bound.
func RunJSON() {
	max := 7
	if nd.Tier() > 0 {
		max = 6 // with all six value kinds instead of four
	}
	toks, d, end := gen(max)
	root, err := xsel.ReadJson(&hx.JSONScript{Toks: toks})
	nd.Reach("json")
	switch end {
	case 0:
		nd.Reach("json.complete")
		nd.Assert(err == nil, "json.complete.noerr")
		nd.Assert(root != nil && same(root, d, 0), "json.tree")
	case 1:
		nd.Reach("json.truncated")
		nd.Assert(err != nil, "json.truncated.error")
	case 2:
		nd.Reach("json.syntax-error")
		nd.Assert(err != nil, "json.syntax-error.error")
	}
	nd.Assert(root != nil || err != nil, "json.no-nil-nil")
}
