package hx

import (
	"io"
	"strings"

	"golang.org/x/net/html"
)

// HTMLScript carries a DOM built by the harness. Under the engine html.Parse
// is a stub that returns Doc; natively Read renders the DOM as HTML text and
// the real HTML5 tree builder runs.
type HTMLScript struct {
	Doc  *html.Node
	Text string // if set: the literal source text read natively (tag soup that the renderer cannot express)
	text []byte
	off  int
	done bool
}

func (s *HTMLScript) HTMLDoc() *html.Node { return s.Doc }

func renderNode(sb *strings.Builder, n *html.Node) {
	switch n.Type {
	case html.DocumentNode:
		for c := n.FirstChild; c != nil; c = c.NextSibling {
			renderNode(sb, c)
		}
	case html.DoctypeNode:
		sb.WriteString("<!DOCTYPE " + n.Data + ">")
	case html.CommentNode:
		sb.WriteString("<!--" + n.Data + "-->")
	case html.TextNode:
		sb.WriteString(n.Data)
	case html.ElementNode:
		sb.WriteString("<" + n.Data)
		for _, a := range n.Attr {
			sb.WriteString(" " + a.Key + `="` + a.Val + `"`)
		}
		sb.WriteString(">")
		if n.Data == "br" {
			return
		}
		for c := n.FirstChild; c != nil; c = c.NextSibling {
			renderNode(sb, c)
		}
		sb.WriteString("</" + n.Data + ">")
	}
}

func (s *HTMLScript) Read(p []byte) (int, error) {
	if !s.done {
		var sb strings.Builder
		if s.Text != "" {
			sb.WriteString(s.Text)
		} else {
			renderNode(&sb, s.Doc)
		}
		s.text = []byte(sb.String())
		s.done = true
	}
	if s.off >= len(s.text) {
		return 0, io.EOF
	}
	n := copy(p, s.text[s.off:])
	s.off += n
	return n, nil
}
