package hx

import (
	"bytes"
	"encoding/xml"
	"io"
	"strings"
	"testing"

	"verifharness/spec"
)

// flatten a MiniNode forest to a token list comparable with encoding/xml's.
func flat(ns []MiniNode, out *[]string) {
	for _, n := range ns {
		switch n.Kind {
		case spec.Elem:
			s := "<{" + n.Space + "}" + n.Local
			for _, a := range n.Attrs {
				s += " {" + a.Space + "}" + a.Local + "=" + a.Value
			}
			*out = append(*out, s)
			flat(n.Children, out)
			*out = append(*out, ">")
		case spec.Text:
			*out = append(*out, "T:"+n.Value)
		case spec.Comment:
			*out = append(*out, "C:"+n.Value)
		case spec.PI:
			*out = append(*out, "P:"+n.Local+"="+n.Value)
		}
	}
}

func real(s string) ([]string, error) {
	d := xml.NewDecoder(strings.NewReader(s))
	var out []string
	for {
		t, err := d.Token()
		if err == io.EOF {
			return out, nil
		}
		if err != nil {
			return nil, err
		}
		switch t := t.(type) {
		case xml.StartElement:
			s := "<{" + t.Name.Space + "}" + t.Name.Local
			for _, a := range t.Attr {
				if a.Name.Space == "xmlns" || a.Name.Space == "" && a.Name.Local == "xmlns" {
					continue
				}
				s += " {" + a.Name.Space + "}" + a.Name.Local + "=" + a.Value
			}
			out = append(out, s)
		case xml.EndElement:
			out = append(out, ">")
		case xml.CharData:
			out = append(out, "T:"+string(t))
		case xml.Comment:
			out = append(out, "C:"+string(t))
		case xml.ProcInst:
			out = append(out, "P:"+t.Target+"="+string(t.Inst))
		}
	}
}

// TestMiniAgainstEncodingXML: on outputs of encoding/xml's encoder for a
// family of token sequences, the mini parser and the real decoder agree.
func TestMiniAgainstEncodingXML(t *testing.T) {
	texts := []string{"t", "<", "&", ">", "\"", "'", "\t", "\r", " ", "a b", "é"}
	names := []xml.Name{{Local: "a"}, {Space: "u", Local: "a"}, {Space: "http://x/y", Local: "b"}}
	n := 0
	for _, en := range names {
		for _, an := range names {
			for _, tx := range texts {
				var buf bytes.Buffer
				e := xml.NewEncoder(&buf)
				st := xml.StartElement{Name: en, Attr: []xml.Attr{{Name: an, Value: tx}, {Name: xml.Name{Local: "z"}, Value: "1"}}}
				inner := xml.StartElement{Name: an}
				toks := []xml.Token{st, xml.CharData(tx), inner, xml.Comment("c"), inner.End(), xml.ProcInst{Target: "pi", Inst: []byte("d")}, xml.CharData(tx), st.End()}
				for _, tk := range toks {
					if err := e.EncodeToken(tk); err != nil {
						t.Fatal(err)
					}
				}
				e.Flush()
				s := strings.ReplaceAll(buf.String(), "\n", "&#10;")
				want, err := real(s)
				if err != nil {
					t.Fatalf("real decoder rejects %q: %v", s, err)
				}
				got, ok := ParseRecord(s)
				var gf []string
				flat(got, &gf)
				if !ok || strings.Join(gf, "|") != strings.Join(want, "|") {
					t.Fatalf("mini parser disagrees on %q:\n got  %q (ok=%v)\n want %q", s, gf, ok, want)
				}
				n++
			}
		}
	}
	t.Logf("%d documents agree", n)
}
