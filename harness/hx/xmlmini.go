package hx

import "verifharness/spec"

// A small namespace-aware XML parser for the single-record serialisations the
// command prints with -m (start/end tags, attributes in double quotes,
// character and predefined entity references, comments, processing
// instructions; no DTD, no CDATA). It is plain byte-level Go so that the engine
// can run it on symbolic output; mini_test.go compares it with encoding/xml.

type MiniNode struct {
	Kind     spec.Kind
	Space    string
	Local    string // element/attribute local name, PI target
	Value    string // text, comment, PI data, attribute value
	Attrs    []MiniNode
	Children []MiniNode
}

type miniParser struct {
	s   string
	i   int
	bad bool
}

type nsBinding struct{ prefix, uri string }

func (p *miniParser) fail() { p.bad = true }

func (p *miniParser) has(lit string) bool {
	return p.i+len(lit) <= len(p.s) && p.s[p.i:p.i+len(lit)] == lit
}

func isNameByte(c byte) bool {
	return c >= 'a' && c <= 'z' || c >= 'A' && c <= 'Z' || c >= '0' && c <= '9' || c == '_' || c == '-' || c == '.' || c >= 0x80
}

// qname reads prefix:local (the local part may itself contain further colons:
// the command prints attribute and namespace nodes as PIs named attribute:...).
func (p *miniParser) name() string {
	st := p.i
	for p.i < len(p.s) && (isNameByte(p.s[p.i]) || p.s[p.i] == ':') {
		p.i++
	}
	if p.i == st {
		p.fail()
	}
	return p.s[st:p.i]
}

func splitQName(q string) (string, string) {
	for k := 0; k < len(q); k++ {
		if q[k] == ':' {
			return q[:k], q[k+1:]
		}
	}
	return "", q
}

// reference decodes one entity or character reference starting at '&'.
func (p *miniParser) reference() string {
	for _, e := range [][2]string{{"&lt;", "<"}, {"&gt;", ">"}, {"&amp;", "&"}, {"&quot;", "\""}, {"&apos;", "'"}} {
		if p.has(e[0]) {
			p.i += len(e[0])
			return e[1]
		}
	}
	if !p.has("&#") {
		p.fail()
		return ""
	}
	p.i += 2
	base, n, digits := 10, 0, 0
	if p.i < len(p.s) && p.s[p.i] == 'x' {
		base = 16
		p.i++
	}
	for p.i < len(p.s) && p.s[p.i] != ';' {
		c := p.s[p.i]
		d := -1
		switch {
		case c >= '0' && c <= '9':
			d = int(c - '0')
		case base == 16 && c >= 'a' && c <= 'f':
			d = int(c-'a') + 10
		case base == 16 && c >= 'A' && c <= 'F':
			d = int(c-'A') + 10
		}
		if d < 0 || n > 0x10FFFF {
			p.fail()
			return ""
		}
		n = n*base + d
		digits++
		p.i++
	}
	if digits == 0 || p.i >= len(p.s) {
		p.fail()
		return ""
	}
	p.i++ // ';'
	return string(rune(n))
}

// text reads character data up to the next '<' (or the closing quote q inside
// an attribute value), decoding references.
func (p *miniParser) text(q byte) string {
	out := ""
	for p.i < len(p.s) && !p.bad {
		c := p.s[p.i]
		if q == 0 && c == '<' || q != 0 && c == q {
			break
		}
		if q != 0 && c == '<' {
			p.fail()
			break
		}
		if c == '&' {
			out += p.reference()
			continue
		}
		out += string([]byte{c})
		p.i++
	}
	return out
}

func lookupNS(scope []nsBinding, prefix string) (string, bool) {
	for k := len(scope) - 1; k >= 0; k-- {
		if scope[k].prefix == prefix {
			return scope[k].uri, true
		}
	}
	return "", prefix == ""
}

func (p *miniParser) until(end string) string {
	st := p.i
	for p.i < len(p.s) && !p.has(end) {
		p.i++
	}
	if p.i >= len(p.s) {
		p.fail()
		return ""
	}
	v := p.s[st:p.i]
	p.i += len(end)
	return v
}

// node parses one node at the current position.
func (p *miniParser) node(scope []nsBinding) MiniNode {
	switch {
	case p.has("<!--"):
		p.i += 4
		return MiniNode{Kind: spec.Comment, Value: p.until("-->")}
	case p.has("<?"):
		p.i += 2
		tgt := p.name()
		data := ""
		if p.has("?>") {
			p.i += 2
		} else {
			if p.i >= len(p.s) || p.s[p.i] != ' ' {
				p.fail()
				return MiniNode{}
			}
			p.i++
			data = p.until("?>")
		}
		return MiniNode{Kind: spec.PI, Local: tgt, Value: data}
	case p.has("<"):
		return p.element(scope)
	}
	return MiniNode{Kind: spec.Text, Value: p.text(0)}
}

func (p *miniParser) element(scope []nsBinding) MiniNode {
	p.i++ // '<'
	qn := p.name()
	type rawAttr struct{ q, v string }
	var raw []rawAttr
	empty := false
	for !p.bad {
		if p.has("/>") {
			p.i += 2
			empty = true
			break
		}
		if p.has(">") {
			p.i++
			break
		}
		if p.i >= len(p.s) || p.s[p.i] != ' ' {
			p.fail()
			break
		}
		p.i++
		an := p.name()
		if !p.has("=\"") {
			p.fail()
			break
		}
		p.i += 2
		v := p.text('"')
		if p.i >= len(p.s) {
			p.fail()
			break
		}
		p.i++ // closing quote
		raw = append(raw, rawAttr{an, v})
	}
	inner := append([]nsBinding(nil), scope...)
	for _, a := range raw {
		pre, loc := splitQName(a.q)
		if pre == "" && loc == "xmlns" {
			inner = append(inner, nsBinding{"", a.v})
		} else if pre == "xmlns" {
			inner = append(inner, nsBinding{loc, a.v})
		}
	}
	n := MiniNode{Kind: spec.Elem}
	pre, loc := splitQName(qn)
	uri, ok := lookupNS(inner, pre)
	if !ok {
		p.fail()
	}
	n.Space, n.Local = uri, loc
	for _, a := range raw {
		pre, loc := splitQName(a.q)
		if pre == "" && loc == "xmlns" || pre == "xmlns" {
			continue
		}
		uri := ""
		if pre != "" {
			u, ok := lookupNS(inner, pre)
			if !ok {
				p.fail()
			}
			uri = u
		}
		n.Attrs = append(n.Attrs, MiniNode{Kind: spec.Attr, Space: uri, Local: loc, Value: a.v})
	}
	if empty {
		return n
	}
	for !p.bad {
		if p.has("</") {
			p.i += 2
			if p.name() != qn || !p.has(">") {
				p.fail()
			}
			p.i++
			return n
		}
		if p.i >= len(p.s) {
			p.fail()
			break
		}
		n.Children = append(n.Children, p.node(inner))
	}
	return n
}

// ParseRecord parses a whole string as a sequence of sibling nodes.
func ParseRecord(s string) ([]MiniNode, bool) {
	p := &miniParser{s: s}
	var out []MiniNode
	for p.i < len(p.s) && !p.bad {
		out = append(out, p.node([]nsBinding{{"xml", "http://www.w3.org/XML/1998/namespace"}}))
	}
	return out, !p.bad
}

// SameSubtree compares a parsed node with abstract node i of d: kind, expanded
// name, value, attributes (as a set, by expanded name) and children in order.
func SameSubtree(d *spec.Doc, i int, m MiniNode) bool {
	n := &d.Nodes[i]
	if n.Kind != m.Kind {
		return false
	}
	switch n.Kind {
	case spec.Text, spec.Comment:
		return n.Value == m.Value
	case spec.PI:
		return n.Local == m.Local && n.Value == m.Value
	case spec.Elem:
		if n.Local != m.Local || n.Space != m.Space || len(n.Attrs) != len(m.Attrs) || len(n.Children) != len(m.Children) {
			return false
		}
		for _, a := range n.Attrs {
			found := false
			for _, ma := range m.Attrs {
				if ma.Local == d.Nodes[a].Local && ma.Space == d.Nodes[a].Space && ma.Value == d.Nodes[a].Value {
					found = true
				}
			}
			if !found {
				return false
			}
		}
		for k, c := range n.Children {
			if !SameSubtree(d, c, m.Children[k]) {
				return false
			}
		}
		return true
	}
	return false
}
