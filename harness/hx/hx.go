// Package hx: helpers shared by the harnesses (public API of xsel only).
package hx

import (
	"io"

	"github.com/ChrisTrenkamp/xsel"
	"github.com/ChrisTrenkamp/xsel/node"
	"github.com/ChrisTrenkamp/xsel/store"
)

// Event is one Parser event of a scripted document.
type Event struct {
	N   node.Node
	End bool
}

// Script is a parser.Parser that replays events.
type Script struct {
	Ev  []Event
	Pos int
}

func (s *Script) Pull() (node.Node, bool, error) {
	if s.Pos >= len(s.Ev) {
		return nil, false, io.EOF
	}
	e := s.Ev[s.Pos]
	s.Pos++
	return e.N, e.End, nil
}

type Elem struct{ NS, Name string }

func (e Elem) Space() string { return e.NS }
func (e Elem) Local() string { return e.Name }

type Attr struct{ NS, Name, Val string }

func (a Attr) Space() string          { return a.NS }
func (a Attr) Local() string          { return a.Name }
func (a Attr) AttributeValue() string { return a.Val }

type NS struct{ Pfx, URI string }

func (n NS) Prefix() string         { return n.Pfx }
func (n NS) NamespaceValue() string { return n.URI }

type Text struct{ Val string }

func (t Text) CharDataValue() string { return t.Val }

type Comment struct{ Val string }

func (c Comment) CommentValue() string { return c.Val }

type PI struct{ Tgt, Val string }

func (p PI) Target() string        { return p.Tgt }
func (p PI) ProcInstValue() string { return p.Val }

// Build feeds the events to the real store.
func Build(ev []Event) (xsel.Cursor, error) {
	return store.CreateInMemory(&Script{Ev: ev})
}

// EmptyDoc is a document that only has a root node.
func EmptyDoc() xsel.Cursor {
	c, _ := Build(nil)
	return c
}
