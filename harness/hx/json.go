package hx

import (
	"io"
	"strconv"
)

// JTok kinds (shared with the engine's stub of (*json.Decoder).Token).
const (
	JObjOpen = iota
	JObjClose
	JArrOpen
	JArrClose
	JStr
	JNum
	JBool
	JNull
	JEOF
	JErr
)

type JTok struct {
	Kind int
	S    string // strings; for numbers optionally the source spelling (a decoder in UseNumber mode hands it on verbatim)
	F    float64
	B    bool
}

// JSONScript is a scripted token stream. Under the engine the decoder stub
// pulls tokens with NextTok; natively Read renders the script as JSON text for
// the real decoder. A script without a final JEOF/JErr token ends with EOF.
type JSONScript struct {
	Toks []JTok
	pos  int
	text []byte
	off  int
	done bool
}

func (s *JSONScript) NextTok() (int, string, float64, bool) {
	if s.pos >= len(s.Toks) {
		return JEOF, "", 0, false
	}
	t := s.Toks[s.pos]
	if t.Kind != JEOF && t.Kind != JErr {
		s.pos++
	}
	return t.Kind, t.S, t.F, t.B
}

// Render produces JSON text whose token stream is the script.
func (s *JSONScript) Render() []byte {
	var out []byte
	type ctx struct {
		obj bool
		n   int // tokens emitted in this container (keys and values)
	}
	var stack []ctx
	top := 0 // values emitted at top level
	sep := func() {
		if len(stack) == 0 {
			if top > 0 {
				out = append(out, ' ')
			}
			top++
			return
		}
		c := &stack[len(stack)-1]
		if c.obj {
			if c.n%2 == 1 {
				out = append(out, ':')
			} else if c.n > 0 {
				out = append(out, ',')
			}
		} else if c.n > 0 {
			out = append(out, ',')
		}
		c.n++
	}
	for _, t := range s.Toks {
		switch t.Kind {
		case JObjOpen:
			sep()
			out = append(out, '{')
			stack = append(stack, ctx{obj: true})
		case JArrOpen:
			sep()
			out = append(out, '[')
			stack = append(stack, ctx{})
		case JObjClose:
			out = append(out, '}')
			stack = stack[:len(stack)-1]
		case JArrClose:
			out = append(out, ']')
			stack = stack[:len(stack)-1]
		case JStr:
			sep()
			out = append(out, '"')
			out = append(out, t.S...)
			out = append(out, '"')
		case JNum:
			sep()
			if t.S != "" { // the numeral as spelled in the source
				out = append(out, t.S...)
			} else {
				out = append(out, strconv.FormatFloat(t.F, 'g', -1, 64)...)
			}
		case JBool:
			sep()
			out = append(out, strconv.FormatBool(t.B)...)
		case JNull:
			sep()
			out = append(out, "null"...)
		case JEOF:
			return out
		case JErr:
			return append(out, " ?"...)
		}
	}
	return out
}

func (s *JSONScript) Read(p []byte) (int, error) {
	if !s.done {
		s.text = s.Render()
		s.done = true
	}
	if s.off >= len(s.text) {
		return 0, io.EOF
	}
	n := copy(p, s.text[s.off:])
	s.off += n
	return n, nil
}
