package hx

import "io"

// Raw XML token kinds (XTok.Kind) and the kinds handed to the decoder stub.
const (
	XStart = iota
	XEnd
	XText
	XComment
	XPI
	XDirective
	XCData // rendered as a CDATA section; the decoder reports it as CharData
	XDecl0 // the XML declaration; the decoder reports ProcInst{Target:"xml"}
	XEOF   = 8
	XErr   = 9
)

type XDecl struct{ Prefix, URI string } // Prefix "" = default namespace declaration
type XRawAttr struct{ Prefix, Local, Value string }

// XAttr is the translated attribute handed to the stub (xml.Attr layout).
type XAttr struct{ Space, Local, Value string }

type XTok struct {
	Kind          int
	Prefix, Local string // elements; PI target in Local
	Decls         []XDecl
	Attrs         []XRawAttr
	Data          string
}

// XMLScript is a scripted token stream for encoding/xml (see JSONScript).
// NextXMLTok performs the name translation that (*xml.Decoder).Token does.
type XMLScript struct {
	Toks  []XTok
	pos   int
	scope []map[string]string
	open  []XTok
	text  []byte
	off   int
	done  bool
}

func (s *XMLScript) lookup(prefix string) (string, bool) {
	if prefix == "xml" {
		return "http://www.w3.org/XML/1998/namespace", true
	}
	for k := len(s.scope) - 1; k >= 0; k-- {
		if u, ok := s.scope[k][prefix]; ok {
			return u, true
		}
	}
	return "", false
}

func (s *XMLScript) translate(prefix string, isAttr bool) string {
	if prefix == "" {
		if isAttr {
			return ""
		}
		u, _ := s.lookup("")
		return u
	}
	if u, ok := s.lookup(prefix); ok {
		return u
	}
	return prefix
}

func (s *XMLScript) NextXMLTok() (int, string, string, []XAttr) {
	if s.pos >= len(s.Toks) {
		if len(s.open) > 0 {
			return XErr, "", "", nil // unexpected EOF is a syntax error for the decoder
		}
		return XEOF, "", "", nil
	}
	t := s.Toks[s.pos]
	s.pos++
	switch t.Kind {
	case XStart:
		m := map[string]string{}
		var attrs []XAttr
		for _, d := range t.Decls {
			m[d.Prefix] = d.URI
			if d.Prefix == "" {
				attrs = append(attrs, XAttr{"", "xmlns", d.URI})
			} else {
				attrs = append(attrs, XAttr{"xmlns", d.Prefix, d.URI})
			}
		}
		s.scope = append(s.scope, m)
		s.open = append(s.open, t)
		for _, a := range t.Attrs {
			attrs = append(attrs, XAttr{s.translate(a.Prefix, true), a.Local, a.Value})
		}
		return 0, s.translate(t.Prefix, false), t.Local, attrs
	case XEnd:
		o := s.open[len(s.open)-1]
		space := s.translate(o.Prefix, false)
		s.open = s.open[:len(s.open)-1]
		s.scope = s.scope[:len(s.scope)-1]
		return 1, space, o.Local, nil
	case XText, XCData:
		return 2, t.Data, "", nil
	case XComment:
		return 3, t.Data, "", nil
	case XPI:
		return 4, t.Local, t.Data, nil
	case XDecl0:
		return 4, "xml", `version="1.0"`, nil
	case XDirective:
		return 5, t.Data, "", nil
	case XErr:
		s.pos--
		return XErr, "", "", nil
	}
	return XErr, "", "", nil
}

func qname(prefix, local string) string {
	if prefix == "" {
		return local
	}
	return prefix + ":" + local
}

// Render produces XML text whose token stream is the script.
func (s *XMLScript) Render() []byte {
	var out []byte
	var open []XTok
	w := func(x string) { out = append(out, x...) }
	for _, t := range s.Toks {
		switch t.Kind {
		case XStart:
			w("<" + qname(t.Prefix, t.Local))
			for _, d := range t.Decls {
				if d.Prefix == "" {
					w(` xmlns="` + d.URI + `"`)
				} else {
					w(` xmlns:` + d.Prefix + `="` + d.URI + `"`)
				}
			}
			for _, a := range t.Attrs {
				w(" " + qname(a.Prefix, a.Local) + `="` + a.Value + `"`)
			}
			w(">")
			open = append(open, t)
		case XEnd:
			o := open[len(open)-1]
			open = open[:len(open)-1]
			w("</" + qname(o.Prefix, o.Local) + ">")
		case XText:
			w(t.Data)
		case XCData:
			w("<![CDATA[" + t.Data + "]]>")
		case XComment:
			w("<!--" + t.Data + "-->")
		case XPI:
			w("<?" + t.Local + " " + t.Data + "?>")
		case XDecl0:
			w(`<?xml version="1.0"?>`)
		case XDirective:
			w("<!" + t.Data + ">")
		case XErr:
			w("<<")
			return out
		}
	}
	return out
}

func (s *XMLScript) Read(p []byte) (int, error) {
	if !s.done {
		s.text = s.Render()
		s.done = true
	}
	if s.off >= len(s.text) {
		return 0, io.EOF
	}
	n := copy(p, s.text[s.off:])
	s.off += n
	return n, nil
}
