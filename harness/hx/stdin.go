package hx

import (
	"io"
	"os"

	"verifharness/nd"
)

// Stdin is the scripted content of standard input. Under the engine the
// decoder stubs use it when the reader they are given is os.Stdin; natively
// WithStdin feeds the rendered script through a pipe installed as os.Stdin.
var Stdin io.Reader

func WithStdin(script io.Reader, f func()) {
	if nd.Symbolic() {
		old := Stdin
		Stdin = script
		f()
		Stdin = old
		return
	}
	data, _ := io.ReadAll(script)
	r, w, err := os.Pipe()
	if err != nil {
		panic(err)
	}
	old := os.Stdin
	os.Stdin = r
	go func() {
		w.Write(data)
		w.Close()
	}()
	f()
	os.Stdin = old
	r.Close()
}
