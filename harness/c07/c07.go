// Package c07: string functions operate on Unicode characters with XPath 1.0
// semantics (property C07).
package c07

import (
	"strings"
	"unicode/utf8"

	"github.com/ChrisTrenkamp/xsel"

	"verifharness/hx"
	"verifharness/nd"
	"verifharness/spec"
)

var (
	root  xsel.Cursor
	exprs map[string]*xsel.Grammar
)

func Setup() {
	root = hx.EmptyDoc()
	exprs = map[string]*xsel.Grammar{}
	for _, s := range []string{"concat($a, $b)", "concat($a, $b, $c)", "starts-with($a, $b)", "contains($a, $b)",
		"substring-before($a, $b)", "substring-after($a, $b)", "substring($a, $p)", "substring($a, $p, $l)",
		"string-length($a)", "normalize-space($a)", "translate($a, $b, $c)"} {
		g := xsel.MustBuildExpr(s)
		exprs[s] = &g
	}
}

func isPanicErr(err error) bool {
	return err != nil && strings.Contains(err.Error(), "xpath query panic")
}

// utf8Str returns a symbolic string of at most max bytes that is valid UTF-8.
func utf8Str(max int) string {
	s := nd.Str(nd.Choice(max + 1))
	nd.Assume(utf8.ValidString(s))
	return s
}

func wantString(r xsel.Result, err error, want string, id string) {
	nd.Assert(!isPanicErr(err), id+".no-internal-panic")
	nd.Assert(err == nil, id+".noerr")
	s, ok := r.(xsel.String)
	nd.Assert(ok, id+".is-string")
	nd.Assert(string(s) == want, id+".value")
	nd.Assert(utf8.ValidString(string(s)), id+".valid-utf8")
}

func wantBool(r xsel.Result, err error, want bool, id string) {
	nd.Assert(!isPanicErr(err), id+".no-internal-panic")
	nd.Assert(err == nil, id+".noerr")
	b, ok := r.(xsel.Bool)
	nd.Assert(ok, id+".is-bool")
	nd.Assert(bool(b) == want, id+".value")
}

func sv(name string, s string) xsel.ContextApply { return xsel.WithVariable(name, xsel.String(s)) }

func maxBytes() int {
	if nd.Tier() > 0 {
		return 4
	}
	return 3
}

// RunSearch: concat, starts-with, contains, substring-before, substring-after.
func RunSearch() {
	a, b := utf8Str(maxBytes()), utf8Str(2)
	switch nd.Choice(6) {
	case 0:
		r, err := xsel.Exec(root, exprs["concat($a, $b)"], sv("a", a), sv("b", b))
		nd.Reach("concat")
		wantString(r, err, a+b, "concat")
	case 1:
		r, err := xsel.Exec(root, exprs["starts-with($a, $b)"], sv("a", a), sv("b", b))
		nd.Reach("starts-with")
		wantBool(r, err, strings.HasPrefix(a, b), "starts-with")
	case 2:
		r, err := xsel.Exec(root, exprs["contains($a, $b)"], sv("a", a), sv("b", b))
		nd.Reach("contains")
		wantBool(r, err, strings.Contains(a, b), "contains")
	case 3:
		r, err := xsel.Exec(root, exprs["substring-before($a, $b)"], sv("a", a), sv("b", b))
		nd.Reach("substring-before")
		want := ""
		if k := strings.Index(a, b); k >= 0 {
			want = a[:k]
		}
		wantString(r, err, want, "substring-before")
	case 4:
		r, err := xsel.Exec(root, exprs["substring-after($a, $b)"], sv("a", a), sv("b", b))
		nd.Reach("substring-after")
		want := ""
		if k := strings.Index(a, b); k >= 0 {
			want = a[k+len(b):]
		}
		wantString(r, err, want, "substring-after")
	case 5:
		c := utf8Str(1)
		r, err := xsel.Exec(root, exprs["concat($a, $b, $c)"], sv("a", a), sv("b", b), sv("c", c))
		nd.Reach("concat3")
		wantString(r, err, a+b+c, "concat3")
	}
}

func negTie(x float64) bool { return nd.And(x < 0, spec.IsTie(x)) }

// RunSubstring: substring(s, p[, l]) with arbitrary doubles p and l.
func RunSubstring() {
	a := utf8Str(maxBytes())
	p := nd.F64()
	if nd.Choice(2) == 0 {
		// recorded finding C06.round.negative-tie also shifts substring's window
		nd.Known("C06.round.negative-tie", negTie(p))
		r, err := xsel.Exec(root, exprs["substring($a, $p)"], sv("a", a), xsel.WithVariable("p", xsel.Number(p)))
		nd.Reach("substring2")
		wantString(r, err, spec.Substring(a, p, 0, false), "substring2")
		return
	}
	l := nd.F64()
	nd.Known("C06.round.negative-tie", nd.Or(negTie(p), negTie(l)))
	r, err := xsel.Exec(root, exprs["substring($a, $p, $l)"], sv("a", a),
		xsel.WithVariable("p", xsel.Number(p)), xsel.WithVariable("l", xsel.Number(l)))
	nd.Reach("substring3")
	wantString(r, err, spec.Substring(a, p, l, true), "substring3")
}

// RunLengthSpace: string-length and normalize-space.
func RunLengthSpace() {
	a := utf8Str(maxBytes() + 1)
	if nd.Choice(2) == 0 {
		r, err := xsel.Exec(root, exprs["string-length($a)"], sv("a", a))
		nd.Reach("string-length")
		nd.Assert(!isPanicErr(err), "string-length.no-internal-panic")
		nd.Assert(err == nil, "string-length.noerr")
		n, ok := r.(xsel.Number)
		nd.Assert(ok, "string-length.is-number")
		nd.Assert(float64(n) == float64(len([]rune(a))), "string-length.value")
		return
	}
	r, err := xsel.Exec(root, exprs["normalize-space($a)"], sv("a", a))
	nd.Reach("normalize-space")
	wantString(r, err, spec.NormalizeSpace(a), "normalize-space")
}

// RunTranslate: translate(s, from, to).
func RunTranslate() {
	n := 2
	if nd.Tier() > 0 {
		n = 3
	}
	a, f, t := utf8Str(n), utf8Str(n), utf8Str(n)
	r, err := xsel.Exec(root, exprs["translate($a, $b, $c)"], sv("a", a), sv("b", f), sv("c", t))
	nd.Reach("translate")
	wantString(r, err, spec.Translate(a, f, t), "translate")
}
