// Package c09: ReadXml builds the XPath data model of the XML document
// (property C09), given the decoder's contract: (*xml.Decoder).Token is a
// scripted stub; natively the script is rendered as XML and the real decoder
// runs.
package c09

import (
	"github.com/ChrisTrenkamp/xsel"
	"github.com/ChrisTrenkamp/xsel/node"

	"verifharness/hx"
	"verifharness/nd"
	"verifharness/spec"
)

const xmlNS = "http://www.w3.org/XML/1998/namespace"

func Setup() {}

func symURI() string {
	b := nd.Byte()
	nd.Assume(nd.Or(b == 'u', b == 'v'))
	return string([]byte{b})
}

func symLocal() string {
	b := nd.Byte()
	nd.Assume(nd.Or(b == 'a', b == 'b'))
	return string([]byte{b})
}

func symText() string {
	b := nd.Byte()
	nd.Assume(nd.And(b >= 'a', b <= 'z'))
	return string([]byte{b})
}

type scope struct {
	bind map[string]string // prefix -> URI ("" prefix = default; URI "" = undeclared)
}

type gstate struct {
	toks     []hx.XTok
	d        *spec.Doc
	stack    []int // abstract element indices
	scope    []map[string]string
	lastText []bool // per open element (and root): was the last child a text node (for merging)
}

func (g *gstate) lookup(p string) (string, bool) {
	if p == "xml" {
		return xmlNS, true
	}
	for k := len(g.scope) - 1; k >= 0; k-- {
		if u, ok := g.scope[k][p]; ok {
			return u, u != "" || p != ""
		}
	}
	return "", false
}

// inScope lists the bindings in scope (declared, inherited, overridden,
// default undeclared removed) plus xml.
func (g *gstate) inScope() map[string]string {
	m := map[string]string{"xml": xmlNS}
	for _, s := range g.scope {
		for p, u := range s {
			if u == "" {
				delete(m, p)
			} else {
				m[p] = u
			}
		}
	}
	return m
}

// gen builds a raw token script and the data model expected for it.
// end: 0 complete, 1 truncated, 2 syntax error
func gen(max int) (*gstate, int) {
	g := &gstate{d: spec.NewDoc(), stack: []int{0}, lastText: []bool{false}}
	rootDone := false
	if nd.Choice(2) == 1 {
		g.toks = append(g.toks, hx.XTok{Kind: hx.XDecl0})
	}
	for n := 0; n < max; n++ {
		depth := len(g.stack) - 1
		top := g.stack[depth]
		const (
			cStop = iota
			cErr
			cStart
			cEnd
			cText
			cCData
			cComment
			cPI
			cDirective
		)
		menu := []int{cStop, cErr}
		if depth > 0 {
			menu = append(menu, cEnd, cText, cCData)
		}
		if (depth > 0 && depth < 2) || (depth == 0 && !rootDone) {
			menu = append(menu, cStart)
		}
		menu = append(menu, cComment, cPI)
		if depth == 0 && !rootDone {
			menu = append(menu, cDirective)
		}
		c := menu[nd.Choice(len(menu))]
		if c == cStop {
			break
		}
		if c == cErr {
			g.toks = append(g.toks, hx.XTok{Kind: hx.XErr})
			return g, 2
		}
		switch c {
		case cStart:
			t := hx.XTok{Kind: hx.XStart, Local: symLocal()}
			m := map[string]string{}
			// declarations: none | default | default undeclared | p | default+p
			nDecl := 5
			if nd.Tier() > 0 {
				nDecl = 6
			}
			switch []int{0, 1, 2, 3, 5, 4}[nd.Choice(nDecl)] {
			case 5:
				// the xml prefix may be declared explicitly (with its fixed URI),
				// after another declaration
				u := symURI()
				t.Decls = append(t.Decls, hx.XDecl{Prefix: "p", URI: u}, hx.XDecl{Prefix: "xml", URI: xmlNS})
				m["p"] = u
			case 1:
				u := symURI()
				t.Decls = append(t.Decls, hx.XDecl{Prefix: "", URI: u})
				m[""] = u
			case 2:
				t.Decls = append(t.Decls, hx.XDecl{Prefix: "", URI: ""})
				m[""] = ""
			case 3:
				u := symURI()
				t.Decls = append(t.Decls, hx.XDecl{Prefix: "p", URI: u})
				m["p"] = u
			case 4:
				u, v := symURI(), symURI()
				t.Decls = append(t.Decls, hx.XDecl{Prefix: "", URI: u}, hx.XDecl{Prefix: "p", URI: v})
				m[""], m["p"] = u, v
			}
			g.scope = append(g.scope, m)
			_, pBound := g.lookup("p")
			if pBound && nd.Choice(2) == 1 {
				t.Prefix = "p"
			}
			// attribute: none | unprefixed | p:local | xml:lang | p:xmlns (an ordinary
			// attribute whose local name happens to be xmlns)
			nAttr := 4
			if nd.Tier() > 0 {
				nAttr = 5
			}
			ak := []int{0, 1, 2, 4, 3}[nd.Choice(nAttr)]
			if (ak == 2 || ak == 4) && !pBound {
				ak = 0
			}
			// recorded finding: the adapter takes p:xmlns="x" for a namespace declaration
			nd.Known("C09.prefixed-xmlns-attribute", ak == 4)
			switch ak {
			case 1:
				t.Attrs = append(t.Attrs, hx.XRawAttr{Local: symLocal(), Value: symText()})
			case 2:
				t.Attrs = append(t.Attrs, hx.XRawAttr{Prefix: "p", Local: symLocal(), Value: symText()})
			case 3:
				t.Attrs = append(t.Attrs, hx.XRawAttr{Prefix: "xml", Local: "lang", Value: symText()})
			case 4:
				t.Attrs = append(t.Attrs, hx.XRawAttr{Prefix: "p", Local: "xmlns", Value: symText()})
			}
			g.toks = append(g.toks, t)
			// expected data model
			space, _ := g.lookup(t.Prefix)
			id := g.d.Add(top, spec.Node{Kind: spec.Elem, Local: t.Local, Space: space})
			for p, u := range g.inScope() {
				g.d.Add(id, spec.Node{Kind: spec.NSNode, Prefix: p, Value: u})
			}
			for _, a := range t.Attrs {
				as := ""
				if a.Prefix != "" {
					as, _ = g.lookup(a.Prefix)
				}
				g.d.Add(id, spec.Node{Kind: spec.Attr, Local: a.Local, Space: as, Value: a.Value})
			}
			g.lastText[depth] = false
			g.stack = append(g.stack, id)
			g.lastText = append(g.lastText, false)
		case cEnd:
			g.toks = append(g.toks, hx.XTok{Kind: hx.XEnd})
			g.stack = g.stack[:depth]
			g.lastText = g.lastText[:depth]
			g.scope = g.scope[:len(g.scope)-1]
			if depth == 1 {
				rootDone = true
			}
		case cText, cCData:
			s := symText()
			k := hx.XText
			if c == cCData {
				k = hx.XCData
			}
			// two plain text tokens in a row cannot come from the decoder (it
			// reports a maximal run), CDATA next to text can
			if c == cText && g.lastText[depth] && g.toks[len(g.toks)-1].Kind == hx.XText {
				nd.Assume(false)
			}
			g.toks = append(g.toks, hx.XTok{Kind: k, Data: s})
			if g.lastText[depth] {
				kids := g.d.Nodes[top].Children
				g.d.Nodes[kids[len(kids)-1]].Value += s
			} else {
				g.d.Add(top, spec.Node{Kind: spec.Text, Value: s})
			}
			g.lastText[depth] = true
		case cComment:
			g.toks = append(g.toks, hx.XTok{Kind: hx.XComment, Data: "c"})
			g.d.Add(top, spec.Node{Kind: spec.Comment, Value: "c"})
			g.lastText[depth] = false
		case cPI:
			tg := symLocal()
			if nd.Choice(2) == 1 {
				tg = "xml-stylesheet" // an ordinary PI whose target merely starts with "xml"
			}
			g.toks = append(g.toks, hx.XTok{Kind: hx.XPI, Local: tg, Data: "d"})
			g.d.Add(top, spec.Node{Kind: spec.PI, Local: tg, Value: "d"})
			g.lastText[depth] = false
		case cDirective:
			g.toks = append(g.toks, hx.XTok{Kind: hx.XDirective, Data: "DOCTYPE a"})
		}
	}
	if len(g.stack) > 1 {
		return g, 1
	}
	return g, 0
}

// same compares the cursor tree with the expected data model; namespace nodes
// of an element are compared as a set of (prefix, URI) pairs.
func same(c xsel.Cursor, d *spec.Doc, i int, owner xsel.Cursor, id string) bool {
	n := &d.Nodes[i]
	ok := true
	switch n.Kind {
	case spec.Elem:
		e, is := c.Node().(node.Element)
		ok = is && e.Local() == n.Local && e.Space() == n.Space
	case spec.Attr:
		a, is := c.Node().(node.Attribute)
		ok = is && a.Local() == n.Local && a.Space() == n.Space && a.AttributeValue() == n.Value
	case spec.Text:
		t, is := c.Node().(node.CharData)
		ok = is && t.CharDataValue() == n.Value
	case spec.Comment:
		t, is := c.Node().(node.Comment)
		ok = is && t.CommentValue() == n.Value
	case spec.PI:
		t, is := c.Node().(node.ProcInst)
		ok = is && t.Target() == n.Local && t.ProcInstValue() == n.Value
	}
	if !ok {
		nd.Note("mismatch at abstract node " + n.Kind.String() + " " + n.Local)
		return false
	}
	ch, at, ns := c.Children(), c.Attributes(), c.Namespaces()
	if len(ch) != len(n.Children) || len(at) != len(n.Attrs) {
		nd.Note("child/attribute count differs under " + n.Kind.String() + " " + n.Local)
		return false
	}
	if n.Kind == spec.Elem {
		if len(ns) != len(n.NS) {
			nd.Note("namespace node count differs on element " + n.Local)
			return false
		}
		for _, x := range n.NS {
			found := false
			for _, nc := range ns {
				s, is := nc.Node().(node.Namespace)
				if is && s.Prefix() == d.Nodes[x].Prefix && s.NamespaceValue() == d.Nodes[x].Value && nc.Parent() == c {
					found = true
				}
			}
			if !found {
				nd.Note("namespace binding missing on element " + n.Local + ": " + d.Nodes[x].Prefix)
				return false
			}
		}
	}
	for k, x := range n.Attrs {
		if !same(at[k], d, x, c, id) {
			return false
		}
	}
	for k, x := range n.Children {
		if !same(ch[k], d, x, c, id) {
			return false
		}
	}
	return true
}

// docOrder walks the tree in document order (an element, its namespace
// nodes, its attributes, its children) and checks that Pos() strictly
// increases: document order is what node-set sorting and de-duplication use.
func docOrder(c xsel.Cursor, last *int) bool {
	if c.Pos() <= *last {
		return false
	}
	*last = c.Pos()
	for _, x := range c.Namespaces() {
		if x.Pos() <= *last {
			return false
		}
		*last = x.Pos()
	}
	for _, x := range c.Attributes() {
		if x.Pos() <= *last {
			return false
		}
		*last = x.Pos()
	}
	for _, x := range c.Children() {
		if !docOrder(x, last) {
			return false
		}
	}
	return true
}

// RunXML: every token stream within the bound.
func RunXML() {
	max := 4
	if nd.Tier() > 0 {
		max = 4 // as quick; the thorough tier widens the declaration and attribute menus
	}
	g, end := gen(max)
	root, err := xsel.ReadXml(&hx.XMLScript{Toks: g.toks})
	nd.Reach("xml")
	switch end {
	case 0:
		nd.Reach("xml.complete")
		nd.Assert(err == nil, "xml.complete.noerr")
		nd.Assert(root != nil && same(root, g.d, 0, nil, "xml"), "xml.data-model")
		if root != nil {
			last := -1
			nd.Assert(docOrder(root, &last), "xml.positions-increase-in-document-order")
		}
	case 1:
		nd.Reach("xml.truncated")
		nd.Assert(err != nil, "xml.truncated.error")
	case 2:
		nd.Reach("xml.syntax-error")
		nd.Assert(err != nil, "xml.syntax-error.error")
	}
	nd.Assert(root != nil || err != nil, "xml.no-nil-nil")
}

// RunPositions: documents one token longer than RunXML's bound, of the shape
// <a DECLS><b [xmlns:p=w]/> NEXT <d/></a>: an empty, attribute-less element
// that only inherits (or redeclares) namespace bindings, followed by further
// nodes. Positions must strictly increase along the document-order walk.
func RunPositions() {
	u, v := symURI(), symURI()
	var decls []hx.XDecl
	switch nd.Choice(3) {
	case 0:
		decls = []hx.XDecl{{Prefix: "p", URI: u}}
	case 1:
		decls = []hx.XDecl{{Prefix: "p", URI: u}, {Prefix: "q", URI: v}}
	case 2:
		decls = []hx.XDecl{{Prefix: "", URI: u}, {Prefix: "p", URI: v}}
	}
	b := hx.XTok{Kind: hx.XStart, Local: "b"}
	if nd.Choice(2) == 1 {
		b.Decls = []hx.XDecl{{Prefix: "p", URI: "w"}}
	}
	toks := []hx.XTok{{Kind: hx.XStart, Local: "a", Decls: decls}, b, {Kind: hx.XEnd}}
	switch nd.Choice(4) {
	case 0:
		toks = append(toks, hx.XTok{Kind: hx.XText, Data: symText()})
	case 1:
		toks = append(toks, hx.XTok{Kind: hx.XStart, Local: "c"}, hx.XTok{Kind: hx.XEnd})
	case 2:
		toks = append(toks, hx.XTok{Kind: hx.XComment, Data: "c"})
	case 3:
		toks = append(toks, hx.XTok{Kind: hx.XStart, Local: "c", Attrs: []hx.XRawAttr{{Local: "x", Value: "1"}}}, hx.XTok{Kind: hx.XEnd})
	}
	toks = append(toks, hx.XTok{Kind: hx.XStart, Local: "d"}, hx.XTok{Kind: hx.XEnd}, hx.XTok{Kind: hx.XEnd})
	root, err := xsel.ReadXml(&hx.XMLScript{Toks: toks})
	nd.Reach("positions")
	nd.Assert(err == nil && root != nil, "positions.noerr")
	if root == nil {
		return
	}
	last := -1
	nd.Assert(docOrder(root, &last), "xml.positions-increase-in-document-order")
	// every element of the document lists p among its namespace nodes
	a := root.Children()[0]
	for _, e := range append([]xsel.Cursor{a}, a.Children()...) {
		if _, isElem := e.Node().(node.Element); !isElem {
			continue
		}
		found := false
		for _, n := range e.Namespaces() {
			if s, ok := n.Node().(node.Namespace); ok && s.Prefix() == "p" {
				found = true
			}
		}
		nd.Assert(found, "positions.binding-in-scope-on-every-element")
	}
}
