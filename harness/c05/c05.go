// Package c05: comparison operators implement XPath 1.0 existential and typed
// comparison (property C05).
package c05

import (
	"strings"

	"github.com/ChrisTrenkamp/xsel"

	"verifharness/hx"
	"verifharness/nd"
	"verifharness/spec"
)

var ops = []string{"=", "!=", "<", "<=", ">", ">="}
var converse = map[string]string{"=": "=", "!=": "!=", "<": ">", "<=": ">=", ">": "<", ">=": "<="}
var exprs map[string]*xsel.Grammar

func Setup() {
	exprs = map[string]*xsel.Grammar{}
	for _, op := range ops {
		g := xsel.MustBuildExpr("$l " + op + " $r")
		exprs[op] = &g
	}
}

type operand struct {
	impl xsel.Result
	spec spec.Val
}

// docBuilder collects the element nodes whose string-values feed node-set operands.
type docBuilder struct {
	ev    []hx.Event
	doc   *spec.Doc
	r     int
	elems []int // abstract indices of the <a> elements, in document order
}

func newDocBuilder() *docBuilder {
	d := &docBuilder{doc: spec.NewDoc()}
	d.ev = append(d.ev, hx.Event{N: hx.Elem{Name: "r"}})
	d.r = d.doc.Add(0, spec.Node{Kind: spec.Elem, Local: "r"})
	return d
}

func (d *docBuilder) addElem(text string) int {
	d.ev = append(d.ev, hx.Event{N: hx.Elem{Name: "a"}})
	id := d.doc.Add(d.r, spec.Node{Kind: spec.Elem, Local: "a"})
	if len(text) > 0 {
		d.ev = append(d.ev, hx.Event{N: hx.Text{Val: text}})
		d.doc.Add(id, spec.Node{Kind: spec.Text, Value: text})
	}
	d.ev = append(d.ev, hx.Event{End: true})
	d.elems = append(d.elems, id)
	return id
}

func textLen() int { return 1 }

func strLen() int {
	return 2
}

type pending struct {
	kind  int // 0 number 1 string 2 bool 3 node-set
	n     float64
	s     string
	b     bool
	elems []int // indices into docBuilder.elems
}

func pick(d *docBuilder, kind, maxNodes, maxStr int) pending {
	p := pending{kind: kind}
	switch p.kind {
	case 0:
		p.n = nd.F64()
	case 1:
		p.s = nd.Str(nd.Choice(maxStr + 1))
	case 2:
		p.b = nd.Bool()
	case 3:
		k := nd.Choice(maxNodes + 1)
		for i := 0; i < k; i++ {
			d.addElem(nd.Str(nd.Choice(textLen() + 1)))
			p.elems = append(p.elems, len(d.elems)-1)
		}
	}
	return p
}

func (p pending) operand(d *docBuilder, b *hx.Built) operand {
	switch p.kind {
	case 0:
		return operand{xsel.Number(p.n), spec.Val{T: spec.TNum, N: p.n}}
	case 1:
		return operand{xsel.String(p.s), spec.Val{T: spec.TStr, S: p.s}}
	case 2:
		return operand{xsel.Bool(p.b), spec.Val{T: spec.TBool, B: p.b}}
	}
	ns := xsel.NodeSet{}
	var set []int
	for _, e := range p.elems {
		id := d.elems[e]
		ns = append(ns, b.Cursors[id])
		set = append(set, id)
	}
	return operand{ns, spec.Val{T: spec.TSet, Set: set}}
}

func isPanicErr(err error) bool {
	return err != nil && strings.Contains(err.Error(), "xpath query panic")
}

// RunCompare: `$l op $r` for the six operators and all 4x4 operand types.
func RunCompare() {
	d := newDocBuilder()
	kl, kr := nd.Choice(4), nd.Choice(4)
	// bounds: a node-set operand has <= 2 nodes (<= 1 on the right when both are
	// node-sets); a string compared with a node-set is one byte shorter
	maxR, sl, sr := 2, strLen(), strLen()
	if kl == 3 && kr == 3 {
		maxR = 1
	} else if nd.Tier() > 0 {
		maxR = 3 // thorough: a node-set compared with a scalar has up to 3 nodes
	}
	if kr == 3 {
		sl--
	}
	if kl == 3 {
		sr--
	}
	pl := pick(d, kl, 2, sl)
	pr := pick(d, kr, maxR, sr)
	d.ev = append(d.ev, hx.Event{End: true})
	b := &hx.Built{Doc: d.doc, Events: d.ev}
	b.Root, b.Err = hx.Build(d.ev)
	b.Tie()
	nd.Assert(b.TieOK, "store-mirrors-script")
	l, r := pl.operand(d, b), pr.operand(d, b)
	op := ops[nd.Choice(len(ops))]
	res, err := xsel.Exec(b.Root, exprs[op], xsel.WithVariable("l", l.impl), xsel.WithVariable("r", r.impl))
	nd.Reach("compare")
	nd.Assert(!isPanicErr(err), "cmp.no-internal-panic")
	nd.Assert(err == nil, "cmp.noerr")
	got, ok := res.(xsel.Bool)
	nd.Assert(ok, "cmp.is-bool")
	want := d.doc.Compare(op, l.spec, r.spec)
	nd.Assert(bool(got) == want, "cmp.value("+kindName(pl.kind)+op+kindName(pr.kind)+")")
	// converse law, both sides real code: L op R == R op' L
	res2, err2 := xsel.Exec(b.Root, exprs[converse[op]], xsel.WithVariable("l", r.impl), xsel.WithVariable("r", l.impl))
	nd.Assert(err2 == nil, "cmp.converse.noerr")
	got2, _ := res2.(xsel.Bool)
	nd.Assert(bool(got) == bool(got2), "cmp.converse("+kindName(pl.kind)+op+kindName(pr.kind)+")")
}

func kindName(k int) string { return []string{"num", "str", "bool", "set"}[k] }
