// Package c03: node-set results are duplicate-free, ordered, and closed under
// the union laws (property C03).
package c03

import (
	"github.com/ChrisTrenkamp/xsel"

	"verifharness/c01"
	"verifharness/hx"
	"verifharness/nd"
	"verifharness/spec"
)

type entry struct {
	src     string
	ast     spec.Expr
	g       *xsel.Grammar
	reverse bool // uses a reverse axis in its last step and is not a union
}

var menu []entry
var unionVW, unionWV, unionVV, unionVWX, unionVWX2, cntV, cntW, cntVW *xsel.Grammar

func add(ast spec.Expr, reverse bool) {
	src := spec.Render(ast)
	g := xsel.MustBuildExpr(src)
	menu = append(menu, entry{src: src, ast: ast, g: &g, reverse: reverse})
}

func build(s string) *xsel.Grammar {
	g := xsel.MustBuildExpr(s)
	return &g
}

var (
	tNode = spec.NodeTest{Kind: spec.TNode}
	tAny  = spec.NameTest("", "*")
	tA    = spec.NameTest("", "a")
	dos   = spec.S("descendant-or-self", tNode)
)

func Setup() {
	setupKeywordNames()
	menu = nil
	u := func(l, r spec.Expr) spec.Expr { return spec.Bin{Op: "|", L: l, R: r} }
	allA := spec.AbsP(dos, spec.S("child", tA))
	allE := spec.AbsP(dos, spec.S("child", tAny))
	add(spec.AbsP(dos, spec.S("child", tA), spec.S("parent", tNode)), false)           // //a/..
	add(spec.Rel(spec.S("child", tAny), spec.S("ancestor", tAny)), true)               // */ancestor::*
	add(spec.AbsP(dos, spec.S("child", tAny), spec.S("attribute", tAny)), false)       // //*/@*
	add(spec.Rel(spec.S("preceding-sibling", tAny), spec.S("attribute", tAny)), false) // preceding-sibling::*/@*
	add(spec.Rel(spec.S("ancestor-or-self", tAny), spec.S("namespace", tAny)), false)  // ancestor-or-self::*/namespace::*
	add(spec.Rel(spec.S("child", tAny), spec.S("following", tAny), spec.S("preceding", tAny)), true)
	add(spec.Rel(spec.S("descendant", tNode), spec.S("ancestor-or-self", tNode)), true)
	add(spec.Rel(spec.S("preceding", tNode), spec.S("descendant-or-self", tNode)), false)
	add(spec.Rel(spec.S("ancestor", tNode), spec.S("descendant", tNode)), false)
	add(spec.Rel(spec.S("following-sibling", tNode), spec.S("preceding-sibling", tNode)), true)
	add(spec.Rel(spec.S("ancestor-or-self", tNode)), true)
	add(spec.Rel(spec.S("preceding", tNode)), true)
	add(u(allA, allE), false)
	add(u(allE, allA), false)
	add(u(spec.Rel(spec.S("ancestor", tNode)), spec.Rel(spec.S("descendant", tNode))), false)
	add(u(spec.Rel(spec.S("preceding", tNode)), spec.Rel(spec.S("following", tNode))), false)
	add(u(u(spec.Rel(spec.S("attribute", tAny)), spec.Rel(spec.S("child", tNode))), spec.Rel(spec.S("self", tNode))), false)
	add(u(spec.Rel(spec.S("parent", tNode), spec.S("attribute", tAny)), spec.AbsP(dos, spec.S("attribute", tAny))), false)
	allNS := spec.AbsP(dos, spec.S("namespace", tNode))
	allAttr := spec.AbsP(dos, spec.S("attribute", tAny))
	allNodes := spec.AbsP(dos, spec.S("child", tNode))
	add(u(allNS, allNodes), false)
	add(u(u(allNS, allAttr), allE), false)
	add(u(spec.Rel(spec.S("descendant-or-self", tNode), spec.S("namespace", tNode)), spec.Rel(spec.S("following", tNode))), false)
	add(allNS, false)
	add(spec.Fn("count", u(allNS, allNodes)), false)
	unionVW = build("$v | $w")
	unionWV = build("$w | $v")
	unionVV = build("$v | $v")
	unionVWX = build("($v | $w) | $x")
	unionVWX2 = build("$v | ($w | $x)")
	cntV = build("count($v)")
	cntW = build("count($w)")
	cntVW = build("count($v | $w)")
}

func genOpts() hx.GenOpts {
	o := hx.GenOpts{MaxEvents: 5, MaxDepth: 2, Attrs: 1, NS: 1, Other: true, SymNames: true}
	if nd.Tier() > 0 {
		o.MaxEvents, o.MaxDepth = 6, 3
	}
	return o
}

// WellFormed asserts the node-set invariants of C03 on a result.
func WellFormed(b *hx.Built, ns xsel.NodeSet, mayDescend bool, id string) {
	foreign, dupID, dupPos := false, false, false
	asc, desc := true, true
	for i, c := range ns {
		if b.Index(c) < 0 {
			foreign = true
		}
		for j := 0; j < i; j++ {
			if ns[j] == c {
				dupID = true
			}
			if ns[j].Pos() == c.Pos() {
				dupPos = true
			}
		}
		if i > 0 {
			if !(ns[i-1].Pos() < c.Pos()) {
				asc = false
			}
			if !(ns[i-1].Pos() > c.Pos()) {
				desc = false
			}
		}
	}
	nd.Assert(!foreign, id+".only-document-nodes")
	nd.Assert(!dupID, id+".no-duplicate-node")
	nd.Assert(!dupPos, id+".no-duplicate-pos")
	if mayDescend {
		nd.Assert(asc || desc, id+".monotone")
	} else {
		nd.Assert(asc, id+".ascending")
	}
}

// RunOrder: overlap-producing paths and unions from every context node.
func RunOrder() {
	b := hx.GenOrFixed(genOpts())
	nd.Assert(b.TieOK, "store-mirrors-script")
	ctx := nd.Choice(len(b.Doc.Nodes))
	cur := b.Cursors[ctx]
	bind := &spec.Bindings{NS: map[string]string{}, Vars: map[string]spec.Val{}}
	nd.Reach("order")
	for k := range menu {
		m := &menu[k]
		r, err := xsel.Exec(cur, m.g)
		want, wantFail := specEvalAt(b.Doc, m.ast, ctx, bind)
		c01.CompareResult(b, r, err, want, wantFail, m.src)
		if ns, ok := r.(xsel.NodeSet); ok {
			WellFormed(b, ns, m.reverse, m.src)
		}
	}
}

func specEvalAt(d *spec.Doc, e spec.Expr, ctx int, b *spec.Bindings) (v spec.Val, failed bool) {
	defer func() {
		if r := recover(); r != nil {
			if _, ok := r.(spec.Err); ok {
				failed = true
				return
			}
			panic(r)
		}
	}()
	v = d.Eval(e, spec.Ctx{Node: ctx, Pos: 1, Size: 1}, b)
	return
}

// pick builds a node-set variable: an arbitrary sub-multiset of the document's
// nodes in arbitrary order (length <= max), as a caller could construct it.
func pick(b *hx.Built, max int) (xsel.NodeSet, []bool) {
	n := nd.Choice(max + 1)
	ns := make(xsel.NodeSet, 0, n)
	in := make([]bool, len(b.Doc.Nodes))
	for k := 0; k < n; k++ {
		i := nd.Choice(len(b.Doc.Nodes))
		ns = append(ns, b.Cursors[i])
		in[i] = true
	}
	return ns, in
}

func sameSets(a, b xsel.NodeSet) bool {
	if len(a) != len(b) {
		return false
	}
	for i := range a {
		if a[i] != b[i] {
			return false
		}
	}
	return true
}

// RunUnion: union laws on caller-built node-sets (unsorted, with duplicates).
func RunUnion() {
	o := hx.GenOpts{MaxEvents: 3, MaxDepth: 2, Attrs: 1, Other: true}
	b := hx.Gen(o)
	nd.Assert(b.TieOK, "store-mirrors-script")
	nd.Assume(len(b.Doc.Nodes) >= 2)
	max := 2
	if nd.Tier() > 0 {
		max = 3
	}
	v, inV := pick(b, max)
	w, inW := pick(b, max)
	x, _ := pick(b, 1)
	set := func() []xsel.ContextApply {
		// fresh copies: the library must not be able to disturb later calls through our slices
		return []xsel.ContextApply{xsel.WithVariable("v", append(xsel.NodeSet(nil), v...)),
			xsel.WithVariable("w", append(xsel.NodeSet(nil), w...)), xsel.WithVariable("x", append(xsel.NodeSet(nil), x...))}
	}
	run := func(g *xsel.Grammar, id string) xsel.NodeSet {
		r, err := xsel.Exec(b.Root, g, set()...)
		nd.Assert(err == nil, id+".noerr")
		ns, ok := r.(xsel.NodeSet)
		nd.Assert(ok, id+".is-nodeset")
		WellFormed(b, ns, false, id)
		return ns
	}
	nd.Reach("union")
	vw, wv := run(unionVW, "v|w"), run(unionWV, "w|v")
	nd.Assert(sameSets(vw, wv), "union.commutative")
	vv := run(unionVV, "v|v")
	// idempotent: v|v has exactly the distinct members of v
	distinctV, distinctW, common, either := 0, 0, 0, 0
	for i := range inV {
		if inV[i] {
			distinctV++
		}
		if inW[i] {
			distinctW++
		}
		if inV[i] && inW[i] {
			common++
		}
		if inV[i] || inW[i] {
			either++
		}
	}
	nd.Assert(len(vv) == distinctV, "union.idempotent")
	nd.Assert(len(vw) == either, "union.count")
	nd.Assert(len(vw) == distinctV+distinctW-common, "union.inclusion-exclusion")
	for _, c := range vw {
		k := b.Index(c)
		nd.Assert(k >= 0 && (inV[k] || inW[k]), "union.members")
	}
	l, r := run(unionVWX, "(v|w)|x"), run(unionVWX2, "v|(w|x)")
	nd.Assert(sameSets(l, r), "union.associative")
}

// keyword-like element names: axis names (also as prefixes of longer names),
// node types, function names. The operator names div/mod/and/or are the known
// finding C08.operator-name-as-name and are left out.
var kwNames = []string{"preceding", "ancestor-id", "ancestors", "child", "self", "following", "descendant", "parent",
	"text", "node", "comment", "processing-instruction", "last", "position", "count", "string", "attribute", "namespace"}

type kwEntry struct {
	src string
	ast spec.Expr
	g   *xsel.Grammar
}

var kwMenu []kwEntry

func setupKeywordNames() {
	kwMenu = nil
	addKW := func(ast spec.Expr) {
		src := spec.RenderAbbrev(ast)
		g := xsel.MustBuildExpr(src)
		kwMenu = append(kwMenu, kwEntry{src: src, ast: ast, g: &g})
	}
	one := spec.Num{V: 1}
	for _, n := range kwNames {
		t := spec.NameTest("", n)
		addKW(spec.AbsP(dos, spec.S("child", t)))                                                                                // //NAME
		addKW(spec.AbsP(spec.S("child", spec.NameTest("", "r")), spec.S("child", t)))                                            // /r/NAME
		addKW(spec.Rel(spec.S("child", t)))                                                                                      // NAME
		addKW(spec.AbsP(dos, spec.S("child", t), spec.S("child", tAny)))                                                         // //NAME/*
		addKW(spec.AbsP(dos, spec.S("child", t, one)))                                                                           // //NAME[1]
		addKW(spec.AbsP(dos, spec.S("child", tAny), spec.S("child", t, spec.Rel(spec.S("attribute", spec.NameTest("", "id")))))) // //*/NAME[@id]
		addKW(spec.AbsP(dos, spec.S("attribute", t)))                                                                            // //@NAME
	}
}

// RunKeywordNames: element and attribute names that look like axis names, node
// types or function names are ordinary names: abbreviated steps that use them
// select the same nodes, in ascending document order, as for any other name.
func RunKeywordNames() {
	e := func(n string) hx.Event { return hx.Event{N: hx.Elem{Name: n}} }
	at := func(n, v string) hx.Event { return hx.Event{N: hx.Attr{Name: n, Val: v}} }
	end := hx.Event{End: true}
	ev := []hx.Event{e("r")}
	// every name occurs three times: twice as a child of r (the second with an
	// id attribute and children), once nested under another keyword-named element
	for k, n := range kwNames {
		ev = append(ev, e(n), at(n, "v"), end)
		ev = append(ev, e(n), at("id", "2"), e(kwNames[(k+1)%len(kwNames)]), at("id", "3"), end, hx.Event{N: hx.Text{Val: "t"}}, end)
	}
	ev = append(ev, end)
	b := hx.FromEvents(ev)
	nd.Assert(b.TieOK, "store-mirrors-script")
	// context: root, r, or the second 'preceding' element
	ctxs := []int{0, 1, 1}
	for i, n := range b.Doc.Nodes {
		if n.Kind == spec.Elem && n.Local == "preceding" && len(n.Children) > 0 {
			ctxs[2] = i
		}
	}
	ctx := ctxs[nd.Choice(3)]
	part := nd.Choice(len(kwNames)) // one name per path keeps paths short
	bind := &spec.Bindings{NS: map[string]string{}, Vars: map[string]spec.Val{}}
	nd.Reach("keyword-names")
	per := len(kwMenu) / len(kwNames)
	for k := part * per; k < (part+1)*per; k++ {
		m := &kwMenu[k]
		r, err := xsel.Exec(b.Cursors[ctx], m.g)
		want, wantFail := specEvalAt(b.Doc, m.ast, ctx, bind)
		c01.CompareResult(b, r, err, want, wantFail, m.src)
		if ns, ok := r.(xsel.NodeSet); ok {
			WellFormed(b, ns, false, m.src)
		}
	}
}
