// Package c13: queries are pure and deterministic: no input is mutated,
// repeats agree (property C13); its write monitor also serves C14.
package c13

import (
	"sync"

	"github.com/ChrisTrenkamp/xsel"

	"verifharness/hx"
	"verifharness/nd"
)

var queries []*xsel.Grammar
var qsrc = []string{
	"$w | $v | //*", "$v | *", "$v | $w", "* | $v", "$w | $v | //*", "$v/..", "$v[1]", "($v)[last()]", "$v//*[1]",
	"//@* | $v", "ancestor-or-self::* | $v", "count($v | $w)", "$v[. = $w]",
	"preceding::node() | $w", "//node()", "*/node()", "descendant-or-self::*/node()", "//*/*", "*/node()/..",
	"//text()/../node()", "$v/node()", "//*/@*/..", "//node()[last()]",
	"*/*/@node()", "*/*/*/attribute::node()", "//@node()", "$v/@node()",
}

var ambiguous = []string{"f()/a", "$v/a", "(x)/a", "f()", "text()", "a[b]/c", "f()//a", "$v[1]/a"}

var hist []*xsel.Grammar
var histSrc = []string{"$p:v", "p:f()", "//*[p:f()]", "//*[$p:v = $q:v]", "string(p:f()) = $p:v"}

func Setup() {
	hist = nil
	for _, s := range histSrc {
		g := xsel.MustBuildExpr(s)
		hist = append(hist, &g)
	}
	histFn = nil
	for _, s := range histFnSrc {
		g := xsel.MustBuildExpr(s)
		histFn = append(histFn, &g)
	}
	queries = nil
	for _, s := range qsrc {
		g := xsel.MustBuildExpr(s)
		queries = append(queries, &g)
	}
}

// held is a node-set as a caller holds it: a slice with spare capacity and a
// longer alias of the same backing array.
type held struct {
	full xsel.NodeSet // len == cap
	n    int          // the length handed to the library
}

// pick builds a caller-held node-set of n <= maxLen nodes plus spare capacity.
// Quick tier: one of a table of configurations over the nodes A (first
// non-root node) and B (last node): orders, duplicates, spare capacity holding
// the caller's own data. Thorough tier: any node in any slot.
func pick(b *hx.Built, maxLen, maxSpare int) held {
	N := len(b.Doc.Nodes)
	if nd.Tier() > 0 && N <= 2 {
		n := nd.Choice(maxLen + 1)
		spare := nd.Choice(maxSpare + 1)
		full := make(xsel.NodeSet, n+spare)
		for k := range full {
			full[k] = b.Cursors[nd.Choice(N)]
		}
		return held{full: full, n: n}
	}
	A, B := b.Cursors[1], b.Cursors[N-1]
	type cfg struct {
		full []xsel.Cursor
		n    int
	}
	table := []cfg{
		{nil, 0}, {[]xsel.Cursor{A}, 1}, {[]xsel.Cursor{A, B}, 2}, {[]xsel.Cursor{B, A}, 2}, {[]xsel.Cursor{A, A}, 2},
		{[]xsel.Cursor{A, B}, 1}, {[]xsel.Cursor{B, A, A}, 2}, {[]xsel.Cursor{B, A}, 0},
	}
	if maxLen < 2 {
		table = []cfg{{nil, 0}, {[]xsel.Cursor{B}, 1}, {[]xsel.Cursor{B, A}, 1}, {[]xsel.Cursor{A, B}, 0}}
	}
	c := table[nd.Choice(len(table))]
	return held{full: append(xsel.NodeSet(nil), c.full...), n: c.n}
}

func (h held) arg() xsel.NodeSet { return h.full[:h.n] }

func snapshot(h held) []xsel.Cursor { return append([]xsel.Cursor(nil), h.full...) }

func unchanged(h held, snap []xsel.Cursor) bool {
	if len(h.full) != len(snap) {
		return false
	}
	for k := range snap {
		if h.full[k] != snap[k] {
			return false
		}
	}
	return true
}

// nodeDigest records everything a caller can observe about a cursor,
// including the spare capacity of the slices the store hands out.
type nodeDigest struct {
	c      xsel.Cursor
	pos    int
	parent xsel.Cursor
	lists  [3][]xsel.Cursor // Children, Attributes, Namespaces up to capacity
	lens   [3]int
}

func digest(b *hx.Built) []nodeDigest {
	var d []nodeDigest
	for _, c := range b.Cursors {
		n := nodeDigest{c: c, pos: c.Pos(), parent: c.Parent()}
		for k, l := range [][]xsel.Cursor{c.Children(), c.Attributes(), c.Namespaces()} {
			n.lens[k] = len(l)
			n.lists[k] = append([]xsel.Cursor(nil), l[:cap(l)]...)
		}
		d = append(d, n)
	}
	return d
}

func sameDigest(a, b []nodeDigest) bool {
	if len(a) != len(b) {
		return false
	}
	for k := range a {
		if a[k].c != b[k].c || a[k].pos != b[k].pos || a[k].parent != b[k].parent || a[k].lens != b[k].lens {
			return false
		}
		for j := range a[k].lists {
			if len(a[k].lists[j]) != len(b[k].lists[j]) {
				return false
			}
			for i := range a[k].lists[j] {
				if a[k].lists[j][i] != b[k].lists[j][i] {
					return false
				}
			}
		}
	}
	return true
}

func sameResult(a, b xsel.Result) bool {
	switch x := a.(type) {
	case xsel.NodeSet:
		y, ok := b.(xsel.NodeSet)
		if !ok || len(x) != len(y) {
			return false
		}
		for k := range x {
			if x[k] != y[k] {
				return false
			}
		}
		return true
	case xsel.Number:
		y, ok := b.(xsel.Number)
		return ok && nd.SameF64(float64(x), float64(y))
	case xsel.String:
		y, ok := b.(xsel.String)
		return ok && x == y
	case xsel.Bool:
		y, ok := b.(xsel.Bool)
		return ok && x == y
	}
	return a == nil && b == nil
}

// attrDoc: <r><a x y z><d s t u/><e w/></a><b k/><c p q/></r>: an element
// with 3 attributes (attribute array with one spare slot) is followed by a
// sibling whose single attribute fits into that slot, among siblings and
// among grandchildren.
func attrDoc() *hx.Built {
	el := func(n string) hx.Event { return hx.Event{N: hx.Elem{Name: n}} }
	at := func(n string) hx.Event { return hx.Event{N: hx.Attr{Name: n, Val: n}} }
	end := hx.Event{End: true}
	return hx.FromEvents([]hx.Event{el("r"), el("a"), at("x"), at("y"), at("z"), el("d"), at("s"), at("t"), at("u"), end, el("e"), at("w"), end, end,
		el("b"), at("k"), end, el("c"), at("p"), at("q"), end, end})
}

// document: the exhaustive scripts, the skeleton, or the attribute document
func genDoc() *hx.Built {
	switch nd.Choice(3) {
	case 1:
		return hx.Skeleton()
	case 2:
		return attrDoc()
	}
	return hx.Gen(genOpts())
}

func genOpts() hx.GenOpts {
	o := hx.GenOpts{MaxEvents: 4, MaxDepth: 2, Attrs: 1, NS: 0, Other: false}
	if nd.Tier() > 0 {
		o.MaxEvents = 5
	}
	return o
}

// RunPurity: two queries in sequence over shared cursors, a shared compiled
// expression and caller-held node-sets with spare capacity.
func RunPurity() {
	b := genDoc()
	nd.Assert(b.TieOK, "store-mirrors-script")
	nd.Assume(len(b.Doc.Nodes) >= 2)
	v, w := pick(b, 2, 1), pick(b, 1, 1)
	ctx := b.Cursors[(len(b.Doc.Nodes)-1)*nd.Choice(2)]
	q1 := queries[nd.Choice(len(queries))]
	nq2 := 1
	if nd.Tier() > 0 {
		nq2 = 2
	}
	q2 := queries[nd.Choice(nq2)]
	sv, sw, dg := snapshot(v), snapshot(w), digest(b)
	bind := func() []xsel.ContextApply {
		return []xsel.ContextApply{xsel.WithVariable("v", v.arg()), xsel.WithVariable("w", w.arg())}
	}
	// engine-side write monitor: every cell reachable from the tree, the held
	// slices (up to capacity) and the compiled expressions
	h := nd.Protect(b.Root, v.full, w.full, *q1, *q2)
	r1, e1 := xsel.Exec(ctx, q1, bind()...)
	nd.Reach("purity")
	nd.Assert(nd.Writes(h, true) == 0, "purity.no-net-write-to-caller-visible-memory(1)")
	nd.Assert(unchanged(v, sv) && unchanged(w, sw), "purity.node-set-variables-unchanged(1)")
	nd.Assert(sameDigest(dg, digest(b)), "purity.tree-unchanged(1)")
	// a copy of the first result, then an unrelated query, then the first again
	var keep xsel.NodeSet
	if ns, ok := r1.(xsel.NodeSet); ok {
		keep = append(xsel.NodeSet(nil), ns...)
	}
	_, _ = xsel.Exec(b.Root, q2, bind()...)
	nd.Assert(nd.Writes(h, true) == 0, "purity.no-net-write-to-caller-visible-memory(2)")
	nd.Assert(unchanged(v, sv) && unchanged(w, sw), "purity.node-set-variables-unchanged(2)")
	nd.Assert(sameDigest(dg, digest(b)), "purity.tree-unchanged(2)")
	if ns, ok := r1.(xsel.NodeSet); ok {
		nd.Assert(sameResult(ns, keep), "purity.earlier-result-unchanged")
	}
	r3, e3 := xsel.Exec(ctx, q1, bind()...)
	nd.Assert((e1 == nil) == (e3 == nil), "determinism.same-outcome")
	if e1 == nil && e3 == nil {
		nd.Assert(sameResult(r1, r3), "determinism.same-result")
	}
}

// RunFootprint (C14): during Exec no memory reachable from the shared tree,
// the shared compiled expression or the shared node-set variables is written at
// all (not even with the same value), so concurrent calls cannot race.
func RunFootprint() {
	b := genDoc()
	nd.Assert(b.TieOK, "store-mirrors-script")
	nd.Assume(len(b.Doc.Nodes) >= 2)
	v, w := pick(b, 2, 1), pick(b, 1, 1)
	ctx := b.Cursors[(len(b.Doc.Nodes)-1)*nd.Choice(2)]
	q := queries[nd.Choice(len(queries))]
	if !nd.Symbolic() {
		// native replay of a counterexample (built with -race): two goroutines
		// run the query concurrently on the shared structures; the race detector
		// and the comparison of results are the confirmation.
		var wg sync.WaitGroup
		results := make([]xsel.Result, 2)
		for g := 0; g < 2; g++ {
			wg.Add(1)
			go func(g int) {
				defer wg.Done()
				for k := 0; k < 200; k++ {
					results[g], _ = xsel.Exec(ctx, q, xsel.WithVariable("v", v.arg()), xsel.WithVariable("w", w.arg()))
				}
			}(g)
		}
		wg.Wait()
		nd.Assert(sameResult(results[0], results[1]), "footprint.concurrent-results-agree")
		return
	}
	h := nd.Protect(b.Root, v.full, w.full, *q)
	_, _ = xsel.Exec(ctx, q, xsel.WithVariable("v", v.arg()), xsel.WithVariable("w", w.arg()))
	nd.Reach("footprint")
	nd.Assert(nd.Writes(h, false) == 0, "footprint.no-write-to-shared-memory")
}

func f(ctx xsel.Context, args ...xsel.Result) (xsel.Result, error) { return ctx.Result(), nil }

// RunBuildDeterminism: BuildExpr of the same string yields an equivalent query,
// whatever order Go's maps are iterated in (forward and reverse are explored).
func RunBuildDeterminism() {
	b := hx.Gen(hx.GenOpts{MaxEvents: 4, MaxDepth: 2, Attrs: 0})
	nd.Assert(b.TieOK, "store-mirrors-script")
	s := ambiguous[nd.Choice(len(ambiguous))]
	nd.ForkMaps(true)
	g1, e1 := xsel.BuildExpr(s)
	nd.ForkMaps(false)
	g2, e2 := xsel.BuildExpr(s)
	nd.Reach("build-determinism")
	nd.Assert(e1 == nil && e2 == nil, "build.noerr")
	var all xsel.NodeSet
	for k, n := range b.Doc.Nodes {
		if k > 0 && len(n.Children) >= 0 {
			all = append(all, b.Cursors[k])
		}
	}
	set := []xsel.ContextApply{xsel.WithVariable("v", all), xsel.WithFunction("f", f)}
	r1, x1 := xsel.Exec(b.Root, &g1, set...)
	r2, x2 := xsel.Exec(b.Root, &g2, set...)
	nd.Assert((x1 == nil) == (x2 == nil), "build.same-outcome")
	if x1 == nil && x2 == nil {
		nd.Assert(sameResult(r1, r2), "build.equivalent-query")
	}
}

// RunHistory: the result of a query is a function of its own bindings only,
// whatever bindings earlier executions of the same lexical names used: three
// executions with prefix bindings drawn independently (p and q each unbound or
// bound to one of two URIs) must each equal what the same call gives when it is
// the first one made (the call is made first on another path).
func RunHistory() {
	b := hx.Gen(hx.GenOpts{MaxEvents: 3, MaxDepth: 2, Attrs: 0})
	nd.Assert(b.TieOK, "store-mirrors-script")
	qi := nd.Choice(len(hist))
	q := hist[qi]
	hasElem := len(b.Doc.Nodes[0].Children) > 0
	uris := []string{"", "u1", "u2"}
	type bnd struct{ p, q int }
	mk := func(x bnd) []xsel.ContextApply {
		var set []xsel.ContextApply
		if x.p > 0 {
			set = append(set, xsel.WithNS("p", uris[x.p]))
		}
		if x.q > 0 {
			set = append(set, xsel.WithNS("q", uris[x.q]))
		}
		for _, u := range uris[1:] {
			u := u
			set = append(set, xsel.WithVariableNS(u, "v", xsel.String("var-"+u)),
				xsel.WithFunctionNS(u, "f", func(ctx xsel.Context, args ...xsel.Result) (xsel.Result, error) {
					return xsel.String("var-" + u), nil
				}))
		}
		return set
	}
	var xs [3]bnd
	for k := range xs {
		xs[k] = bnd{nd.Choice(3), nd.Choice(3)}
	}
	nd.Reach("history")
	obs := func(x bnd) (xsel.Result, error) { return xsel.Exec(b.Root, q, mk(x)...) }
	var rs [3]xsel.Result
	var es [3]error
	for k := range xs {
		rs[k], es[k] = obs(xs[k])
		// an unbound p is an error wherever $p:v or p:f() is evaluated (inside a
		// predicate only when there is a candidate)
		if xs[k].p == 0 && (hasElem || (qi != 2 && qi != 3)) {
			nd.Assert(es[k] != nil, "history.unbound-prefix-is-an-error")
		}
	}
	// equal bindings give equal results wherever they stand in the history
	for i := 0; i < 3; i++ {
		for j := i + 1; j < 3; j++ {
			if xs[i] == xs[j] {
				nd.Assert((es[i] == nil) == (es[j] == nil), "history.same-bindings-same-outcome")
				if es[i] == nil && es[j] == nil {
					nd.Assert(sameResult(rs[i], rs[j]), "history.same-bindings-same-result")
				}
			}
		}
	}
	// the value names the URI bound now, not one bound earlier
	for k := range xs {
		if es[k] != nil || xs[k].p == 0 {
			continue
		}
		want := "var-" + uris[xs[k].p]
		switch v := rs[k].(type) {
		case xsel.String:
			nd.Assert(string(v) == want, "history.value-from-current-bindings")
		case xsel.Bool:
			nd.Assert(bool(v), "history.value-from-current-bindings")
		}
	}
}

var histFn []*xsel.Grammar
var histFnSrc = []string{"count(//*)", "my-fn()", "//*[count(.) = 1]", "string(count(//*)) = '42'"}

// RunFunctionHistory: a function bound in one execution is not visible to the
// next: three executions, each independently binding (or not) a user function
// named like the builtin count and one named my-fn; every execution must give
// what its own bindings say (the builtin count, or an error for my-fn, when
// nothing is bound now - whatever was bound before).
func RunFunctionHistory() {
	b := hx.Gen(hx.GenOpts{MaxEvents: 3, MaxDepth: 2, Attrs: 0})
	nd.Assert(b.TieOK, "store-mirrors-script")
	qi := nd.Choice(len(histFn))
	q := histFn[qi]
	nElems := len(b.Elements())
	user := func(ctx xsel.Context, args ...xsel.Result) (xsel.Result, error) { return xsel.Number(42), nil }
	nd.Reach("function-history")
	for k := 0; k < 3; k++ {
		bound := nd.Bool()
		var set []xsel.ContextApply
		if bound {
			set = append(set, xsel.WithFunction("count", user), xsel.WithFunction("my-fn", user))
		}
		r, err := xsel.Exec(b.Root, q, set...)
		switch qi {
		case 0:
			n, ok := r.(xsel.Number)
			want := float64(nElems)
			if bound {
				want = 42
			}
			nd.Assert(err == nil && ok && float64(n) == want, "function-history.count-from-current-bindings")
		case 1:
			if bound {
				n, ok := r.(xsel.Number)
				nd.Assert(err == nil && ok && n == 42, "function-history.user-function-called")
			} else {
				nd.Assert(err != nil, "function-history.unbound-function-is-an-error")
			}
		case 2:
			ns, ok := r.(xsel.NodeSet)
			want := nElems
			if bound {
				want = 0
			}
			nd.Assert(err == nil && ok && len(ns) == want, "function-history.predicate-from-current-bindings")
		case 3:
			v, ok := r.(xsel.Bool)
			nd.Assert(err == nil && ok && bool(v) == bound, "function-history.argument-from-current-bindings")
		}
	}
}
