// Package c10: the in-memory store honours the Cursor contract for any
// conforming Parser (property C10).
package c10

import (
	"io"

	"github.com/ChrisTrenkamp/xsel"
	"github.com/ChrisTrenkamp/xsel/node"
	"github.com/ChrisTrenkamp/xsel/store"

	"verifharness/hx"
	"verifharness/nd"
	"verifharness/spec"
)

func Setup() {}

func genOpts() hx.GenOpts {
	o := hx.GenOpts{MaxEvents: 6, MaxDepth: 3, Attrs: 1, NS: 3, Other: true, TopLevel: true, Surplus: true}
	if nd.Tier() > 0 {
		o.MaxEvents, o.Attrs = 8, 2
	}
	return o
}

// walk visits the cursor tree in document order and checks the contract.
type checker struct {
	b       *hx.Built
	lastPos int
	seen    []xsel.Cursor
}

func (k *checker) visit(c xsel.Cursor, parent xsel.Cursor, i int) {
	n := &k.b.Doc.Nodes[i]
	// positions: unique, increasing in document order, 0 only for the root
	if i == 0 {
		nd.Assert(c.Pos() == 0, "pos.root-is-zero")
	} else {
		nd.Assert(c.Pos() > k.lastPos, "pos.increases-in-document-order")
		nd.Assert(c.Pos() != 0, "pos.zero-only-root")
		nd.Assert(c.Parent() == parent, "parent.is-the-lister")
	}
	k.lastPos = c.Pos()
	for _, s := range k.seen {
		nd.Assert(s != c, "cursor.listed-once")
	}
	k.seen = append(k.seen, c)
	// node payload mirrors the event
	switch n.Kind {
	case spec.Elem:
		e, ok := c.Node().(node.Element)
		nd.Assert(ok && e.Local() == n.Local && e.Space() == n.Space, "node.element")
	case spec.Attr:
		a, ok := c.Node().(node.Attribute)
		nd.Assert(ok && a.Local() == n.Local && a.Space() == n.Space && a.AttributeValue() == n.Value, "node.attribute")
	case spec.NSNode:
		s, ok := c.Node().(node.Namespace)
		nd.Assert(ok && s.Prefix() == n.Prefix && s.NamespaceValue() == n.Value, "node.namespace")
	case spec.Text:
		t, ok := c.Node().(node.CharData)
		nd.Assert(ok && t.CharDataValue() == n.Value, "node.text")
	case spec.Comment:
		t, ok := c.Node().(node.Comment)
		nd.Assert(ok && t.CommentValue() == n.Value, "node.comment")
	case spec.PI:
		t, ok := c.Node().(node.ProcInst)
		nd.Assert(ok && t.Target() == n.Local && t.ProcInstValue() == n.Value, "node.pi")
	}
	ns, at, ch := c.Namespaces(), c.Attributes(), c.Children()
	if n.Kind != spec.Elem && n.Kind != spec.Root {
		nd.Assert(len(ns) == 0 && len(at) == 0 && len(ch) == 0, "leaf.has-no-lists")
		return
	}
	nd.Assert(len(ns) == len(n.NS), "shape.namespaces")
	nd.Assert(len(at) == len(n.Attrs), "shape.attributes")
	nd.Assert(len(ch) == len(n.Children), "shape.children")
	if len(ns) != len(n.NS) || len(at) != len(n.Attrs) || len(ch) != len(n.Children) {
		return
	}
	// an element, then its namespace nodes, then its attributes, then its children
	for j, x := range n.NS {
		k.visit(ns[j], c, x)
	}
	for j, x := range n.Attrs {
		k.visit(at[j], c, x)
	}
	for j, x := range n.Children {
		k.visit(ch[j], c, x)
	}
}

// RunContract: every conforming event script within the bound.
func RunContract() {
	b := hx.Gen(genOpts())
	nd.Reach("contract")
	nd.Assert(b.Err == nil, "build.noerr")
	nd.Assert(b.Root != nil, "build.root")
	k := &checker{b: b, lastPos: -1}
	k.visit(b.Root, nil, 0)
}

// depthParser measures the call depth at which the store pulls each event.
type depthParser struct {
	n, pos  int
	depth   int // nesting of the next event
	first   int
	max     int
	maxNest int
	shape   int
}

type elem struct{}

func (elem) Space() string { return "" }
func (elem) Local() string { return "e" }

type text struct{}

func (text) CharDataValue() string { return "t" }

func (p *depthParser) Pull() (node.Node, bool, error) {
	d := nd.Depth()
	if p.pos == 0 {
		p.first = d
	}
	if d > p.max {
		p.max = d
	}
	if p.pos >= p.n {
		return nil, false, io.EOF
	}
	p.pos++
	switch p.shape {
	case 0: // flat: <e/> <e/> ... under the root
		if p.pos%2 == 1 {
			return elem{}, false, nil
		}
		return nil, true, nil
	case 1: // one element with many text/comment children
		if p.pos == 1 {
			p.maxNest = 1
			return elem{}, false, nil
		}
		return text{}, false, nil
	}
	// nested: k opens then k closes
	if p.pos <= p.n/2 {
		p.maxNest = p.pos
		return elem{}, false, nil
	}
	return nil, true, nil
}

// RunStack: the call depth inside CreateInMemory is bounded by the nesting
// depth of the document, not by the number of events.
func RunStack() {
	n := 12
	if nd.Tier() > 0 {
		n = 40
	}
	p := &depthParser{n: n, shape: nd.Choice(3)}
	if p.shape == 0 {
		p.maxNest = 1
	}
	_, err := store.CreateInMemory(p)
	nd.Reach("stack")
	nd.Assert(err == nil, "stack.noerr")
	nd.Assert(p.max-p.first <= 2*p.maxNest+2, "stack.bounded-by-nesting")
}
