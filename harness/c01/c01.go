// Package c01: location steps select exactly the XPath 1.0 axis/node-test node
// set (property C01).
package c01

import (
	"strings"

	"github.com/ChrisTrenkamp/xsel"

	"verifharness/hx"
	"verifharness/nd"
	"verifharness/spec"
)

type entry struct {
	src string
	ast spec.Expr
	g   *xsel.Grammar
}

var menu []entry

func add(src string, ast spec.Expr) {
	if src == "" {
		src = spec.Render(ast)
		// the abbreviated rendering of the same tree must behave identically
		if ab := spec.RenderAbbrev(ast); ab != src {
			g := xsel.MustBuildExpr(ab)
			menu = append(menu, entry{src: ab, ast: ast, g: &g})
		}
	}
	g := xsel.MustBuildExpr(src)
	menu = append(menu, entry{src: src, ast: ast, g: &g})
}

var (
	tNode    = spec.NodeTest{Kind: spec.TNode}
	tText    = spec.NodeTest{Kind: spec.TText}
	tComment = spec.NodeTest{Kind: spec.TComment}
	tPI      = spec.NodeTest{Kind: spec.TPI}
	tPIa     = spec.NodeTest{Kind: spec.TPI, HasPIArg: true, PITarget: "a"}
	tAny     = spec.NameTest("", "*")
	tA       = spec.NameTest("", "a")
)

func Setup() {
	menu = nil
	for _, ax := range spec.Axes {
		tests := []spec.NodeTest{tNode, tAny, tA, tText, tComment, tPI, tPIa}
		if ax == "namespace" {
			tests = []spec.NodeTest{tNode, tAny}
		}
		for _, t := range tests {
			add("", spec.Rel(spec.S(ax, t)))
		}
	}
	dos := spec.S("descendant-or-self", tNode)
	// abbreviations with their expansions as ASTs
	add("a", spec.Rel(spec.S("child", tA)))
	add("*", spec.Rel(spec.S("child", tAny)))
	add("@a", spec.Rel(spec.S("attribute", tA)))
	add("@*", spec.Rel(spec.S("attribute", tAny)))
	add(".", spec.Rel(spec.S("self", tNode)))
	add("..", spec.Rel(spec.S("parent", tNode)))
	add("//a", spec.AbsP(dos, spec.S("child", tA)))
	add(".//a", spec.Rel(spec.S("self", tNode), dos, spec.S("child", tA)))
	add("a//a", spec.Rel(spec.S("child", tA), dos, spec.S("child", tA)))
	add("/", spec.AbsP())
	add("/*", spec.AbsP(spec.S("child", tAny)))
	add("/..", spec.AbsP(spec.S("parent", tNode)))
	add("//@a", spec.AbsP(dos, spec.S("attribute", tA)))
	add("//text()", spec.AbsP(dos, spec.S("child", tText)))
	add("../*", spec.Rel(spec.S("parent", tNode), spec.S("child", tAny)))
	// '//' in the middle of a path, after forward and reverse axes
	for _, ax := range []string{"preceding-sibling", "ancestor", "ancestor-or-self", "preceding", "following-sibling", "following", "descendant", "parent"} {
		add(ax+"::*//*", spec.Rel(spec.S(ax, tAny), dos, spec.S("child", tAny)))
		add(ax+"::node()//text()", spec.Rel(spec.S(ax, tNode), dos, spec.S("child", tText)))
	}
	add("preceding-sibling::*//@*", spec.Rel(spec.S("preceding-sibling", tAny), dos, spec.S("attribute", tAny)))
	add("..//c", spec.Rel(spec.S("parent", tNode), dos, spec.S("child", spec.NameTest("", "c"))))
	// multi-step compositions
	add("", spec.Rel(spec.S("parent", tNode), spec.S("following-sibling", tNode)))
	add("", spec.Rel(spec.S("ancestor", tNode), spec.S("child", tAny)))
	add("", spec.Rel(spec.S("preceding", tNode), spec.S("following", tAny)))
	add("", spec.Rel(spec.S("descendant", tAny), spec.S("parent", tNode), spec.S("attribute", tAny)))
	add("", spec.Rel(spec.S("following-sibling", tAny), spec.S("preceding-sibling", tNode)))
	for _, ax1 := range []string{"ancestor", "preceding", "preceding-sibling", "following"} {
		for _, ax2 := range []string{"child", "descendant", "following-sibling", "attribute", "parent", "preceding-sibling", "namespace"} {
			add("", spec.Rel(spec.S(ax1, tNode), spec.S(ax2, tNode)))
		}
	}
	// predicates on attribute- and namespace-axis steps that contain child steps
	tC := spec.NameTest("", "c")
	for _, ax := range []string{"attribute", "namespace"} {
		add("", spec.Rel(spec.S(ax, tAny, spec.Rel(spec.S("parent", tNode), spec.S("child", tA)))))
		add("", spec.Rel(spec.S(ax, tAny, spec.Rel(spec.S("parent", tNode), spec.S("child", tAny)))))
		add("", spec.AbsP(dos, spec.S(ax, tAny, spec.AbsP(dos, spec.S("child", tC)))))
		add("", spec.AbsP(dos, spec.S(ax, tAny, spec.Rel(spec.S("child", tAny)))))
		add("", spec.AbsP(dos, spec.S(ax, tAny, spec.Rel(spec.S("parent", tNode), spec.S("attribute", tAny)))))
	}
	add("", spec.AbsP(dos, spec.S("child", tAny, spec.Rel(spec.S("attribute", tAny, spec.Rel(spec.S("parent", tNode), spec.S("child", tAny)))))))
	// absolute paths inside predicates and function arguments, from any context
	add("", spec.Rel(spec.S("self", tNode, spec.AbsP(spec.S("child", tA)))))
	add("", spec.Fn("count", spec.AbsP(dos, spec.S("child", tA))))
	add("", spec.Rel(spec.S("child", tAny, spec.AbsP(dos, spec.S("child", tA)))))
	add("", spec.Fn("count", spec.AbsP()))
}

func isPanicErr(err error) bool {
	return err != nil && strings.Contains(err.Error(), "xpath query panic")
}

// specEval runs the reference model, reporting dynamic errors.
func specEval(d *spec.Doc, e spec.Expr, ctx int, b *spec.Bindings) (v spec.Val, failed bool) {
	defer func() {
		if r := recover(); r != nil {
			if _, ok := r.(spec.Err); ok {
				failed = true
				return
			}
			panic(r)
		}
	}()
	v = d.Eval(e, spec.Ctx{Node: ctx, Pos: 1, Size: 1}, b)
	return
}

// CompareResult asserts that the library's result equals the reference value.
func CompareResult(b *hx.Built, r xsel.Result, err error, want spec.Val, wantFail bool, id string) {
	nd.Assert(!isPanicErr(err), id+".no-internal-panic")
	if wantFail {
		nd.Assert(err != nil, id+".error-expected")
		return
	}
	nd.Assert(err == nil, id+".noerr")
	switch want.T {
	case spec.TSet:
		ns, ok := r.(xsel.NodeSet)
		nd.Assert(ok, id+".is-nodeset")
		got := make([]bool, len(b.Doc.Nodes))
		foreign := false
		for _, c := range ns {
			k := b.Index(c)
			if k < 0 {
				foreign = true
			} else {
				got[k] = true
			}
		}
		nd.Assert(!foreign, id+".only-document-nodes")
		exp := make([]bool, len(b.Doc.Nodes))
		for _, k := range want.Set {
			exp[k] = true
		}
		same := true
		for k := range got {
			if got[k] != exp[k] {
				same = false
			}
		}
		nd.Assert(same, id+".nodeset")
	case spec.TNum:
		n, ok := r.(xsel.Number)
		nd.Assert(ok, id+".is-number")
		nd.Assert(nd.SameF64(float64(n), want.N), id+".number")
	case spec.TStr:
		s, ok := r.(xsel.String)
		nd.Assert(ok, id+".is-string")
		nd.Assert(string(s) == want.S, id+".string")
	case spec.TBool:
		v, ok := r.(xsel.Bool)
		nd.Assert(ok, id+".is-bool")
		nd.Assert(bool(v) == want.B, id+".bool")
	}
}

func genOpts() hx.GenOpts {
	o := hx.GenOpts{MaxEvents: 3, MaxDepth: 2, Attrs: 1, NS: 1, Other: true, SymNames: true, TopLevel: true}
	if nd.Tier() > 0 {
		o.MaxEvents, o.MaxDepth, o.Attrs = 5, 3, 2
	}
	return o
}

// RunSteps: every menu step from every context node of every scripted document.
func RunSteps() {
	b := hx.GenOrFixed(genOpts())
	nd.Assert(b.TieOK, "store-mirrors-script")
	ctx := nd.Choice(len(b.Doc.Nodes))
	cur := b.Cursors[ctx]
	bind := &spec.Bindings{NS: map[string]string{}, Vars: map[string]spec.Val{}}
	nd.Reach("steps")
	for k := range menu {
		m := &menu[k]
		r, err := xsel.Exec(cur, m.g)
		want, wantFail := specEval(b.Doc, m.ast, ctx, bind)
		CompareResult(b, r, err, want, wantFail, m.src)
	}
}
