// Package c02: predicates use per-context-node proximity position and the true
// context size; filter expressions number in document order and paths continue
// from the filtered nodes (property C02).
package c02

import (
	"github.com/ChrisTrenkamp/xsel"

	"verifharness/c01"
	"verifharness/hx"
	"verifharness/nd"
	"verifharness/spec"
)

type entry struct {
	src string
	ast spec.Expr
	g   *xsel.Grammar
	// which symbolic parameters the entry uses
	k, j, b, s, v bool
}

var menu []entry

func add(ast spec.Expr, flags string) {
	if ab := spec.RenderAbbrev(ast); ab != spec.Render(ast) {
		addSrc(ab, ast, flags)
	}
	addSrc(spec.Render(ast), ast, flags)
}

func addSrc(src string, ast spec.Expr, flags string) {
	g := xsel.MustBuildExpr(src)
	e := entry{src: src, ast: ast, g: &g}
	for _, f := range flags {
		switch f {
		case 'k':
			e.k = true
		case 'j':
			e.j = true
		case 'b':
			e.b = true
		case 's':
			e.s = true
		case 'v':
			e.v = true
		}
	}
	menu = append(menu, e)
}

var (
	tNode = spec.NodeTest{Kind: spec.TNode}
	tAny  = spec.NameTest("", "*")
	tA    = spec.NameTest("", "a")
	vK    = spec.Var{Local: "k"}
	vJ    = spec.Var{Local: "j"}
	vB    = spec.Var{Local: "b"}
	vS    = spec.Var{Local: "s"}
	vV    = spec.Var{Local: "v"}
	pos   = spec.Fn("position")
	last  = spec.Fn("last")
	dos   = spec.S("descendant-or-self", tNode)
)

var probe entry

func build(ast spec.Expr) entry {
	src := spec.Render(ast)
	g := xsel.MustBuildExpr(src)
	return entry{src: src, ast: ast, g: &g}
}

func Setup() {
	menu = nil
	child := func(preds ...spec.Expr) spec.Step { return spec.S("child", tAny, preds...) }
	allElems := spec.AbsP(dos, spec.S("child", tAny))
	add(spec.Rel(child(vK)), "k")
	add(spec.Rel(child(spec.Bin{Op: "=", L: pos, R: vK})), "k")
	add(spec.Rel(child(spec.Bin{Op: "<=", L: pos, R: vK})), "k")
	add(spec.Rel(child(last)), "")
	add(spec.Rel(child(spec.Bin{Op: "=", L: pos, R: last})), "")
	add(spec.Rel(child(spec.Bin{Op: "-", L: last, R: vK})), "k")
	add(spec.Rel(child(spec.Bin{Op: "=", L: last, R: vK})), "k")
	add(spec.Rel(child(vK, vJ)), "kj")
	add(spec.Rel(spec.S("child", tNode, vK)), "k")
	add(spec.Rel(spec.S("preceding-sibling", tAny, vK)), "k")
	add(spec.Rel(spec.S("preceding-sibling", tNode, last)), "")
	add(spec.Rel(spec.S("ancestor", tAny, vK)), "k")
	add(spec.Rel(spec.S("ancestor-or-self", tNode, vK)), "k")
	add(spec.Rel(spec.S("following-sibling", tNode, vK)), "k")
	add(spec.AbsP(dos, child(vK)), "k")                                                                             // //*[$k]: per-parent numbering
	add(spec.Rel(child(), child(vK)), "k")                                                                          // */*[$k]
	add(spec.AbsP(dos, spec.S("child", tNode, last)), "")                                                           // //node()[last()]
	add(spec.Filter{Primary: allElems, Preds: []spec.Expr{vK}}, "k")                                                // (//*)[$k]
	add(spec.Path{Start: spec.Filter{Primary: allElems, Preds: []spec.Expr{vK}}, Steps: []spec.Step{child()}}, "k") // (//*)[$k]/*
	add(spec.Path{Start: spec.Filter{Primary: allElems, Preds: []spec.Expr{last}}, Steps: []spec.Step{spec.S("parent", tNode)}}, "")
	add(spec.Path{Start: vV, Steps: []spec.Step{child()}}, "v")         // $v/*
	add(spec.Filter{Primary: vV, Preds: []spec.Expr{vK}}, "vk")         // $v[$k]
	add(spec.Path{Start: vV, Steps: []spec.Step{dos, child(vK)}}, "vk") // $v//*[$k]
	// numeric predicates whose value varies with the context node
	nAttr := spec.Fn("number", spec.Rel(spec.S("attribute", spec.NameTest("", "n"))))
	add(spec.Rel(child(pos)), "")
	add(spec.Rel(child(nAttr)), "")
	add(spec.AbsP(dos, child(nAttr)), "")
	add(spec.Rel(child(spec.Bin{Op: "+", L: spec.Fn("count", spec.Rel(spec.S("preceding-sibling", tAny))), R: spec.Num{V: 1}})), "")
	add(spec.Rel(child(spec.Bin{Op: "-", L: spec.Bin{Op: "+", L: last, R: spec.Num{V: 1}}, R: pos})), "")
	add(spec.Filter{Primary: allElems, Preds: []spec.Expr{pos}}, "")
	add(spec.Filter{Primary: allElems, Preds: []spec.Expr{nAttr}}, "")
	add(spec.Rel(spec.S("preceding-sibling", tAny, pos)), "")
	add(spec.Rel(spec.S("ancestor-or-self", tAny, nAttr)), "")
	add(spec.Rel(spec.S("descendant", tAny, spec.Bin{Op: "=", L: pos, R: nAttr})), "")
	add(spec.Rel(child(spec.Bin{Op: "=", L: spec.Bin{Op: "mod", L: pos, R: spec.Num{V: 2}}, R: spec.Num{V: 1}})), "")
	add(spec.Rel(child(vK, pos)), "k")
	add(spec.Rel(child(spec.Bin{Op: ">", L: pos, R: spec.Num{V: 1}}, spec.Num{V: 1})), "")
	add(spec.Rel(spec.S("child", tNode, last), spec.S("preceding-sibling", tNode, spec.Num{V: 1})), "")
	add(spec.Rel(child(vB)), "b")
	add(spec.Rel(child(vS)), "s")
	add(spec.Rel(child(spec.Rel(spec.S("child", tA)))), "")                                   // *[a]
	add(spec.Rel(child(spec.Bin{Op: "=", L: spec.Rel(spec.S("attribute", tA)), R: vS})), "s") // *[@a=$s]
	add(spec.Rel(child(spec.Rel(child(vK)))), "k")                                            // *[*[$k]]
	add(spec.Rel(child(spec.Bin{Op: "=", L: spec.Fn("count", spec.Rel(spec.S("preceding-sibling", tAny))), R: vK})), "k")
	// a reverse-axis step followed by a step that depends on sibling order
	one := spec.Num{V: 1}
	add(spec.Rel(spec.S("preceding-sibling", tAny, one), spec.S("following-sibling", tAny, one)), "")
	add(spec.Rel(spec.S("preceding-sibling", tAny), spec.S("preceding-sibling", tAny, vK)), "k")
	add(spec.Rel(spec.S("preceding-sibling", tNode, vK), spec.S("following-sibling", tNode, one)), "k")
	add(spec.Rel(spec.S("preceding", tAny, one), spec.S("following-sibling", tAny, vK)), "k")
	add(spec.Rel(spec.S("ancestor", tAny, one), spec.S("child", tAny, vK)), "k")
	probe = build(spec.Rel(spec.S("parent", tNode), spec.S("child", tNode, one)))
}

func genOpts() hx.GenOpts {
	o := hx.GenOpts{MaxEvents: 5, MaxDepth: 2, Attrs: 1, NS: 0, Other: false, SymNames: false}
	if nd.Tier() > 0 {
		o.MaxEvents, o.MaxDepth, o.Other = 6, 3, true
	}
	return o
}

// RunPredicates: one menu entry per path (its numeric parameters are
// full-domain doubles), every scripted document, every context node.
func RunPredicates() {
	b := hx.GenOrSkeleton(genOpts())
	nd.Assert(b.TieOK, "store-mirrors-script")
	ctx := nd.Choice(len(b.Doc.Nodes))
	cur := b.Cursors[ctx]
	m := &menu[nd.Choice(len(menu))]
	bind := &spec.Bindings{NS: map[string]string{}, Vars: map[string]spec.Val{}}
	var settings []xsel.ContextApply
	if m.k {
		k := nd.F64()
		bind.Vars["k"] = spec.Val{T: spec.TNum, N: k}
		settings = append(settings, xsel.WithVariable("k", xsel.Number(k)))
	}
	if m.j {
		j := nd.F64()
		bind.Vars["j"] = spec.Val{T: spec.TNum, N: j}
		settings = append(settings, xsel.WithVariable("j", xsel.Number(j)))
	}
	if m.b {
		v := nd.Bool()
		bind.Vars["b"] = spec.Val{T: spec.TBool, B: v}
		settings = append(settings, xsel.WithVariable("b", xsel.Bool(v)))
	}
	if m.s {
		s := nd.Str(nd.Choice(2))
		bind.Vars["s"] = spec.Val{T: spec.TStr, S: s}
		settings = append(settings, xsel.WithVariable("s", xsel.String(s)))
	}
	if m.v {
		// all element nodes; the reference model holds them in document order,
		// the library receives them in one of four orders a caller may produce
		// (document order, reversed, evens then odds, rotated)
		var set []int
		for i, n := range b.Doc.Nodes {
			if n.Kind == spec.Elem {
				set = append(set, i)
			}
		}
		order := make([]int, 0, len(set))
		switch nd.Choice(4) {
		case 0:
			order = append(order, set...)
		case 1:
			for k := len(set) - 1; k >= 0; k-- {
				order = append(order, set[k])
			}
		case 2:
			for k := 1; k < len(set); k += 2 {
				order = append(order, set[k])
			}
			for k := 0; k < len(set); k += 2 {
				order = append(order, set[k])
			}
		case 3:
			for k := range set {
				order = append(order, set[(k+len(set)/2)%len(set)])
			}
		}
		var ns xsel.NodeSet
		for _, i := range order {
			ns = append(ns, b.Cursors[i])
		}
		bind.Vars["v"] = spec.Val{T: spec.TSet, Set: set}
		settings = append(settings, xsel.WithVariable("v", ns))
	}
	r, err := xsel.Exec(cur, m.g, settings...)
	nd.Reach("predicates")
	want, wantFail := specEval(b.Doc, m.ast, ctx, bind)
	c01.CompareResult(b, r, err, want, wantFail, m.src)
	// the document is the same afterwards: sibling positions seen by a second
	// query, and by the same query again, are those of the original order
	r, err = xsel.Exec(cur, probe.g)
	want2, fail2 := specEval(b.Doc, probe.ast, ctx, bind)
	c01.CompareResult(b, r, err, want2, fail2, "afterwards:"+probe.src)
	r, err = xsel.Exec(cur, m.g, settings...)
	c01.CompareResult(b, r, err, want, wantFail, "again:"+m.src)
}

func specEval(d *spec.Doc, e spec.Expr, ctx int, b *spec.Bindings) (v spec.Val, failed bool) {
	defer func() {
		if r := recover(); r != nil {
			if _, ok := r.(spec.Err); ok {
				failed = true
				return
			}
			panic(r)
		}
	}()
	v = d.Eval(e, spec.Ctx{Node: ctx, Pos: 1, Size: 1}, b)
	return
}
