// Package models holds Go-source replacements for library functions whose real
// bodies the engine cannot execute (assembly, unsafe, runtime hooks). They are
// executed symbolically by the same engine, and natively by models_test.go
// against the real functions.
package models

import "fmt"

func StringsIndexByte(s string, c byte) int {
	for i := 0; i < len(s); i++ {
		if s[i] == c {
			return i
		}
	}
	return -1
}

func StringsLastIndexByte(s string, c byte) int {
	for i := len(s) - 1; i >= 0; i-- {
		if s[i] == c {
			return i
		}
	}
	return -1
}

func StringsIndex(s, sub string) int {
	n := len(sub)
	for i := 0; i+n <= len(s); i++ {
		if s[i:i+n] == sub {
			return i
		}
	}
	return -1
}

func StringsLastIndex(s, sub string) int {
	n := len(sub)
	for i := len(s) - n; i >= 0; i-- {
		if s[i:i+n] == sub {
			return i
		}
	}
	return -1
}

func StringsIndexRune(s string, r rune) int {
	for i, c := range s {
		if c == r {
			return i
		}
	}
	return -1
}

// StringsCount counts non-overlapping instances; for the empty separator it is
// the number of runes plus one.
func StringsCount(s, sub string) int {
	if len(sub) == 0 {
		n := 0
		for range s {
			n++
		}
		return n + 1
	}
	n := 0
	for i := 0; i+len(sub) <= len(s); {
		if s[i:i+len(sub)] == sub {
			n++
			i += len(sub)
		} else {
			i++
		}
	}
	return n
}

func BytealgCountString(s string, c byte) int {
	n := 0
	for i := 0; i < len(s); i++ {
		if s[i] == c {
			n++
		}
	}
	return n
}

func BytesIndexByte(b []byte, c byte) int {
	for i, x := range b {
		if x == c {
			return i
		}
	}
	return -1
}

func BytesEqual(a, b []byte) bool {
	return string(a) == string(b)
}

func BytesIndex(s, sep []byte) int {
	return StringsIndex(string(s), string(sep))
}

func Utf8ValidString(s string) bool {
	for _, r := range s {
		_ = r
	}
	// range yields RuneError for invalid bytes; check precisely
	for i := 0; i < len(s); {
		c := s[i]
		if c < 0x80 {
			i++
			continue
		}
		n := 0
		switch {
		case c >= 0xC2 && c <= 0xDF:
			n = 2
		case c >= 0xE0 && c <= 0xEF:
			n = 3
		case c >= 0xF0 && c <= 0xF4:
			n = 4
		default:
			return false
		}
		if i+n > len(s) {
			return false
		}
		lo, hi := byte(0x80), byte(0xBF)
		switch c {
		case 0xE0:
			lo = 0xA0
		case 0xED:
			hi = 0x9F
		case 0xF0:
			lo = 0x90
		case 0xF4:
			hi = 0x8F
		}
		if s[i+1] < lo || s[i+1] > hi {
			return false
		}
		for k := 2; k < n; k++ {
			if s[i+k] < 0x80 || s[i+k] > 0xBF {
				return false
			}
		}
		i += n
	}
	return true
}

// ---- errors ----------------------------------------------------------------

func ErrorsIs(err, target error) bool {
	if err == nil || target == nil {
		return err == target
	}
	for {
		if err == target {
			return true
		}
		if x, ok := err.(interface{ Is(error) bool }); ok && x.Is(target) {
			return true
		}
		switch x := err.(type) {
		case interface{ Unwrap() error }:
			err = x.Unwrap()
			if err == nil {
				return false
			}
		default:
			return false
		}
	}
}

type wrapped struct {
	msg   string
	cause error
}

func (w *wrapped) Error() string { return w.msg + ": " + w.cause.Error() }
func (w *wrapped) Unwrap() error { return w.cause }
func (w *wrapped) Cause() error  { return w.cause }

func PkgErrorsWrapf(err error, format string, args ...interface{}) error {
	if err == nil {
		return nil
	}
	return &wrapped{msg: fmt.Sprintf(format, args...), cause: err}
}

func PkgErrorsWrap(err error, message string) error {
	if err == nil {
		return nil
	}
	return &wrapped{msg: message, cause: err}
}

type fundamental struct{ msg string }

func (f *fundamental) Error() string { return f.msg }

func PkgErrorsErrorf(format string, args ...interface{}) error {
	return &fundamental{msg: fmt.Sprintf(format, args...)}
}

func PkgErrorsNew(message string) error { return &fundamental{msg: message} }

type wrapError struct {
	msg string
	err error
}

func (e *wrapError) Error() string { return e.msg }
func (e *wrapError) Unwrap() error { return e.err }

// FmtErrorfWrap is what fmt.Errorf with a %w verb returns.
func FmtErrorfWrap(msg string, err interface{}) error {
	e, _ := err.(error)
	return &wrapError{msg: msg, err: e}
}

func BytealgCount(b []byte, c byte) int {
	n := 0
	for _, x := range b {
		if x == c {
			n++
		}
	}
	return n
}
