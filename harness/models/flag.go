package models

import (
	"errors"
	"flag"
	"fmt"
	"io/fs"
	"os"
	"strconv"
)

// Model of package flag's command-line set (flag.String/Bool/Int/Var/Parse/
// Args), following flag.(*FlagSet).parseOne of Go 1.23: flags are processed in
// command-line order, each value handed to its Value.Set. Error handling is
// that of flag.ContinueOnError (parsing stops at the first error, which is
// printed to standard error); the native replay switches the real
// flag.CommandLine to the same mode.

type flagString string

func (s *flagString) Set(v string) error { *s = flagString(v); return nil }
func (s *flagString) String() string     { return string(*s) }

type flagBool bool

func (b *flagBool) Set(v string) error {
	x, err := strconv.ParseBool(v)
	if err != nil {
		return errors.New("parse error")
	}
	*b = flagBool(x)
	return nil
}
func (b *flagBool) String() string   { return strconv.FormatBool(bool(*b)) }
func (b *flagBool) IsBoolFlag() bool { return true }

type flagInt int

func (i *flagInt) Set(v string) error {
	x, err := strconv.ParseInt(v, 0, strconv.IntSize)
	if err != nil {
		return errors.New("parse error")
	}
	*i = flagInt(x)
	return nil
}
func (i *flagInt) String() string { return strconv.Itoa(int(*i)) }

var (
	flagNames  []string
	flagValues []flag.Value
	flagRest   []string
)

func flagLookup(name string) flag.Value {
	for k := len(flagNames) - 1; k >= 0; k-- {
		if flagNames[k] == name {
			return flagValues[k]
		}
	}
	return nil
}

func FlagVar(value flag.Value, name string, usage string) {
	if flagLookup(name) != nil {
		panic("flag redefined: " + name)
	}
	flagNames = append(flagNames, name)
	flagValues = append(flagValues, value)
}

func FlagString(name string, value string, usage string) *string {
	p := new(string)
	*p = value
	FlagVar((*flagString)(p), name, usage)
	return p
}

func FlagBool(name string, value bool, usage string) *bool {
	p := new(bool)
	*p = value
	FlagVar((*flagBool)(p), name, usage)
	return p
}

func FlagInt(name string, value int, usage string) *int {
	p := new(int)
	*p = value
	FlagVar((*flagInt)(p), name, usage)
	return p
}

func FlagArgs() []string { return flagRest }

func FlagParse() {
	args := os.Args[1:]
	for {
		if len(args) == 0 {
			break
		}
		s := args[0]
		if len(s) < 2 || s[0] != '-' {
			break
		}
		numMinuses := 1
		if s[1] == '-' {
			numMinuses++
			if len(s) == 2 { // "--" terminates the flags
				args = args[1:]
				break
			}
		}
		name := s[numMinuses:]
		if len(name) == 0 || name[0] == '-' || name[0] == '=' {
			fmt.Fprintln(os.Stderr, "bad flag syntax: "+s)
			break
		}
		args = args[1:]
		hasValue := false
		value := ""
		for i := 1; i < len(name); i++ { // equals cannot be first
			if name[i] == '=' {
				value = name[i+1:]
				hasValue = true
				name = name[0:i]
				break
			}
		}
		fv := flagLookup(name)
		if fv == nil {
			fmt.Fprintln(os.Stderr, "flag provided but not defined: -"+name)
			break
		}
		failed := false
		if b, ok := fv.(interface{ IsBoolFlag() bool }); ok && b.IsBoolFlag() {
			if hasValue {
				if err := fv.Set(value); err != nil {
					fmt.Fprintln(os.Stderr, "invalid boolean value for -"+name)
					failed = true
				}
			} else if err := fv.Set("true"); err != nil {
				fmt.Fprintln(os.Stderr, "invalid boolean flag "+name)
				failed = true
			}
		} else {
			if !hasValue && len(args) > 0 {
				hasValue = true
				value, args = args[0], args[1:]
			}
			if !hasValue {
				fmt.Fprintln(os.Stderr, "flag needs an argument: -"+name)
				failed = true
			} else if err := fv.Set(value); err != nil {
				fmt.Fprintln(os.Stderr, "invalid value for flag -"+name+": "+err.Error())
				failed = true
			}
		}
		if failed {
			break
		}
	}
	flagRest = args
}

// FilepathWalkDir models filepath.WalkDir on a root that does not exist: the
// callback is told about the failed lstat, as the real function does.
func FilepathWalkDir(root string, fn fs.WalkDirFunc) error {
	err := fn(root, nil, errors.New("lstat "+root+": no such file or directory"))
	if err == fs.SkipDir || err == fs.SkipAll {
		return nil
	}
	return err
}
