#!/bin/sh
# Builds the engine and the native replay binary from files on disk only.
set -e
cd "$(dirname "$0")"
export GOFLAGS=-mod=mod GOPROXY=off GOSUMDB=off GOTOOLCHAIN=local
mkdir -p bin evidence replays .work
(cd symgo && go build -o ../bin/symgo .)
cp /repo/go.sum harness/go.sum
python3 gen_registry.py
(cd harness && go build -o ../bin/replay ./cmd/replay && go vet ./models ./spec ./nd >/dev/null 2>&1 || true)
(cd harness && go test -count=1 ./models/ ./spec/ ./hx/ 2>&1 | tail -5)
echo "setup ok"
