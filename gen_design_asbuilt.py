#!/usr/bin/env python3
"""Inserts/refreshes an 'As built' block at the end of each per-property subsection of
DESIGN.md section 4, from harnesses.json (harnesses, bounds, assumptions)."""
import json, os, re
V = os.path.dirname(os.path.abspath(__file__))
reg = json.load(open(os.path.join(V, "harnesses.json")))
kf = json.load(open(os.path.join(V, "known_findings.json")))
p = os.path.join(V, "DESIGN.md")
s = open(p).read()
# drop old blocks
s = re.sub(r"\n<!-- asbuilt:(C\d\d) -->.*?<!-- /asbuilt:\1 -->\n", "\n", s, flags=re.S)
for pid, spec in sorted(reg.items()):
    m = re.search(r"^### %s — .*$" % pid, s, flags=re.M)
    if not m:
        print("no section for", pid); continue
    nxt = re.compile(r"^(### |## |-{20,})", flags=re.M).search(s, m.end())
    lines = ["<!-- asbuilt:%s -->" % pid, "**As built (generated from `harnesses.json`; where this differs from the plan above, this is what runs).**", ""]
    for h in spec["harnesses"]:
        b = h.get("bounds")
        if b:
            lines.append("* `%s` — %s" % (h["run"], b))
        else:
            lines.append("* `%s` — quick: %s; thorough: %s" % (h["run"], h.get("bounds_quick", ""), h.get("bounds_thorough", "")))
    if spec.get("assumptions"):
        lines.append("")
        lines.append("Assumptions: " + "; ".join(spec["assumptions"]) + ".")
    known = [f["id"] for f in kf.get("findings", []) if pid in (f.get("property"), *f.get("properties", []))] if isinstance(kf.get("findings"), list) else []
    if known:
        lines.append("")
        lines.append("Known findings carved out: " + ", ".join(sorted(set(known))) + " (0.7).")
    lines.append("<!-- /asbuilt:%s -->" % pid)
    block = "\n".join(lines) + "\n\n"
    s = s[:nxt.start()] + block + s[nxt.start():]
open(p, "w").write(s)
print("as-built blocks refreshed")
