#!/bin/bash
# seedcheck.sh <ID> [props...]: verify a seeded change from /tmp/seed/<ID> (patch applies, builds, suite passes,
# demo fails with / passes without), then run the given checks (default: the property itself) against copies of /repo
# (patch applied) and /verif, bind-mounted over /repo and /verif in a private mount namespace.
set -u
ID=$1; shift
PROPS=${@:-${ID%%[a-z]*}}
export GOFLAGS=-mod=mod GOPROXY=off GOSUMDB=off GOTOOLCHAIN=local
S=/tmp/seed/$ID
W=/tmp/sv_$ID
rm -rf $W; git -C /repo worktree prune; git -C /repo worktree add --detach $W HEAD -q || exit 2
cd $W
DEMO=$(python3 -c "import json;print(json.load(open('$S/meta.json'))['demo_cmd'])")
# copy demo files (untracked, non-patch files in the seed worktree)
(cd $S && git ls-files --others --exclude-standard | grep -v "seed.diff\|meta.json") | while read f; do mkdir -p $W/$(dirname $f); cp $S/$f $W/$f; done
echo "--- demo WITHOUT patch:"; (eval "$DEMO") > /tmp/sv_$ID.without.log 2>&1; echo "rc=$?"
git apply $S/seed.diff || { echo "PATCH DOES NOT APPLY"; exit 2; }
echo "--- build:"; go build ./... && echo ok
echo "--- demo WITH patch:"; (eval "$DEMO") > /tmp/sv_$ID.with.log 2>&1; echo "rc=$?"
echo "--- suite WITH patch (demo moved away):"
(cd $S && git ls-files --others --exclude-standard | grep -v "seed.diff\|meta.json") | while read f; do rm -f $W/$f; done
go test -count=1 ./... 2>&1 | grep -v "no test files" | tail -3
cd /verif
git -C /repo worktree remove --force $W
echo "--- checks against a private view of /repo with the patch (mount namespace; /repo and /verif themselves untouched):"
R=/tmp/sv_repo_$ID; V=/tmp/sv_verif_$ID
rm -rf $R $V; cp -a /repo $R; rsync -a --exclude .work --exclude replays --exclude .git /verif/ $V/
git -C $R apply $S/seed.diff || exit 2
for p in $PROPS; do
  unshare -m bash -c "mount --bind $R /repo && mount --bind $V /verif && cd /verif && ./check $p" 2>&1 | grep -v "^symgo\|^KNOWN-FINDING" | tail -4; echo "check $p rc=${PIPESTATUS[0]}"
done
rm -rf $R $V
