#!/usr/bin/env python3
"""thorough_probe.py [deadline] [PROP...]: runs every harness at the thorough tier on its own with a
deadline and prints wall time, paths, whether the deadline was hit, violations and inconclusive counts.
A development aid for choosing thorough bounds that run clean; not a registered command."""
import json, os, subprocess, sys, time
V = os.path.dirname(os.path.abspath(__file__))
reg = json.load(open(os.path.join(V, "harnesses.json")))
deadline = sys.argv[1] if len(sys.argv) > 1 else "20m"
props = sys.argv[2:] or sorted(reg)
kf = json.load(open(os.path.join(V, "known_findings.json")))
known = ",".join(sorted({f["id"] for f in kf["findings"]}))
subprocess.run(["python3", os.path.join(V, "gen_cli.py")], check=True)
only = [x for x in os.environ.get("ONLY", "").split(",") if x]
for p in props:
    for h in reg[p]["harnesses"]:
        if only and h["run"] not in only:
            continue
        out = "/tmp/tp_%s.json" % h["run"].replace("/", "_")
        cmd = [os.path.join(V, "bin", "symgo"), "run", "-dir", os.path.join(V, "harness"), "-harness", h["run"], "-tier", "1",
               "-out", out, "-deadline", deadline, "-known", known]
        if h.get("setup"):
            cmd += ["-setup", h["setup"]]
        flags = dict(h.get("flags", {})); flags.update(h.get("flags_thorough", {}))
        for k, v in flags.items():
            cmd += ["-" + k.replace("_", "-"), str(v)]
        t = time.time()
        r = subprocess.run(cmd, capture_output=True, text=True)
        try:
            res = json.load(open(out))
            st = res["Stats"]
            print("%s %-34s wall=%6.0fs paths=%8d ends=%s timed_out=%s violated=%d inconclusive=%d unsupported=%s" % (
                p, h["run"], time.time() - t, st["paths"], st["paths_by_end"], res["TimedOut"], st["violated_sat"], st["inconclusive"],
                st.get("unsupported_reasons")), flush=True)
        except Exception as e:
            print(p, h["run"], "FAILED", e, r.stderr[-300:], flush=True)
