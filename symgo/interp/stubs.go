// Decoder stubs: the third-party tokenizers are replaced by scripts that the
// harness supplies through its io.Reader (natively the same reader renders the
// script as text and the real decoder runs).
//
// Part of symgo (/verif).

package interp

import (
	"go/types"

	"golang.org/x/tools/go/ssa"
)

func init() {
	externals["(*encoding/json.Decoder).Token"] = extJSONToken
	externals["(*encoding/xml.Decoder).Token"] = extXMLToken
	externals["(*encoding/xml.Decoder).RawToken"] = extXMLToken
	externals["encoding/xml.NewDecoder"] = extXMLNewDecoder
	externals["golang.org/x/net/html.Parse"] = extHTMLParse
	externals["golang.org/x/net/html/charset.NewReaderLabel"] = func(fr *frame, args []value) value {
		return tuple{args[1], iface{}}
	}
}

func (i *interpreter) pkgMember(path, name string) ssa.Member {
	p := i.prog.ImportedPackage(path)
	if p == nil {
		panic(abortPath{"unsupported", "package not loaded: " + path})
	}
	return p.Members[name]
}

func (i *interpreter) namedType(path, name string) types.Type {
	m, ok := i.pkgMember(path, name).(*ssa.Type)
	if !ok {
		panic(abortPath{"unsupported", "type not found: " + path + "." + name})
	}
	return m.Type()
}

func (i *interpreter) globalValue(path, name string) value {
	g, ok := i.pkgMember(path, name).(*ssa.Global)
	if !ok {
		panic(abortPath{"unsupported", "global not found: " + path + "." + name})
	}
	return *i.globals[g]
}

// callMethod invokes a method of a harness value by name.
func (i *interpreter) callMethod(fr *frame, recv iface, name string, args ...value) (value, bool) {
	if recv.t == nil {
		return nil, false
	}
	ms := i.prog.MethodSets.MethodSet(recv.t)
	var sel *types.Selection
	for k := 0; k < ms.Len(); k++ {
		if ms.At(k).Obj().Name() == name {
			sel = ms.At(k)
		}
	}
	if sel == nil {
		return nil, false
	}
	fn := i.prog.MethodValue(sel)
	if fn == nil {
		return nil, false
	}
	return call(i, fr, 0, fn, append([]value{recv.v}, args...)), true
}

func (i *interpreter) newError(fr *frame, msg string) value {
	errorsPkg := i.prog.ImportedPackage("errors")
	return call(i, fr, 0, errorsPkg.Func("New"), []value{msg})
}

// scriptReader: the command reads os.Stdin; the harness scripts its content in
// verifharness/hx.Stdin, which stands in for any *os.File reader.
func (i *interpreter) scriptReader(r iface) iface {
	if r.t == nil {
		return r
	}
	if p, ok := r.t.(*types.Pointer); ok {
		if n, ok := p.Elem().(*types.Named); ok && n.Obj().Pkg() != nil && n.Obj().Pkg().Path() == "os" && n.Obj().Name() == "File" {
			if hp := i.prog.ImportedPackage("verifharness/hx"); hp != nil {
				if g, ok := hp.Members["Stdin"].(*ssa.Global); ok {
					if s, ok := (*i.globals[g]).(iface); ok && s.t != nil {
						return s
					}
				}
			}
		}
	}
	return r
}

// decoderReader returns the io.Reader stored in field 0 of a *Decoder.
func decoderReader(args []value) iface {
	p := args[0].(*value)
	if p == nil {
		panic(runtimeErrorString("invalid memory address or nil pointer dereference"))
	}
	r, _ := (*p).(structure)[0].(iface)
	return r
}

// (*json.Decoder).Token: the reader must offer NextTok() (kind int, s string, f float64, b bool)
// kinds: 0 '{' 1 '}' 2 '[' 3 ']' 4 string 5 number 6 bool 7 null 8 io.EOF 9 syntax error
func extJSONToken(fr *frame, args []value) value {
	i := fr.i
	r := i.scriptReader(decoderReader(args))
	res, ok := i.callMethod(fr, r, "NextTok")
	if !ok {
		panic(abortPath{"unsupported", "encoding/json tokenizer on a real reader (only scripted token streams are encoded)"})
	}
	t := res.(tuple)
	kind := int(asInt64(t[0]))
	delim := func(c rune) value {
		return tuple{iface{t: i.namedType("encoding/json", "Delim"), v: int32(c)}, iface{}}
	}
	switch kind {
	case 0:
		return delim('{')
	case 1:
		return delim('}')
	case 2:
		return delim('[')
	case 3:
		return delim(']')
	case 4:
		return tuple{iface{t: types.Typ[types.String], v: t[1]}, iface{}}
	case 5:
		// a decoder in UseNumber mode returns the numeral as spelled
		dt := i.namedType("encoding/json", "Decoder")
		dst := (*args[0].(*value)).(structure)[fieldIndex(dt, "d")].(structure)
		ds, _ := i.pkgMember("encoding/json", "decodeState").(*ssa.Type)
		if ds != nil {
			if un, _ := dst[fieldIndex(ds.Type(), "useNumber")].(bool); un {
				spelled := t[1]
				if s, ok := spelled.(string); ok && s == "" {
					panic(abortPath{"unsupported", "json.Number without a scripted source spelling"})
				}
				return tuple{iface{t: i.namedType("encoding/json", "Number"), v: spelled}, iface{}}
			}
		}
		return tuple{iface{t: types.Typ[types.Float64], v: t[2]}, iface{}}
	case 6:
		return tuple{iface{t: types.Typ[types.Bool], v: t[3]}, iface{}}
	case 7:
		return tuple{iface{}, iface{}}
	case 8:
		return tuple{iface{}, i.globalValue("io", "EOF")}
	}
	return tuple{iface{}, i.newError(fr, "invalid character (scripted syntax error)")}
}

func fieldIndex(t types.Type, name string) int {
	st := t.Underlying().(*types.Struct)
	for k := 0; k < st.NumFields(); k++ {
		if st.Field(k).Name() == name {
			return k
		}
	}
	panic("fieldIndex: no field " + name)
}

// xml.NewDecoder: a zero Decoder with Strict set and the reader kept in field r
// (the real constructor wraps the reader in a bufio.Reader, which only the
// real tokenizer needs).
func extXMLNewDecoder(fr *frame, args []value) value {
	i := fr.i
	dt := i.namedType("encoding/xml", "Decoder")
	cell := zero(dt)
	st := cell.(structure)
	st[fieldIndex(dt, "Strict")] = true
	st[fieldIndex(dt, "r")] = args[0]
	return &cell
}

func (i *interpreter) xmlDecoderReader(args []value) iface {
	p := args[0].(*value)
	if p == nil {
		panic(runtimeErrorString("invalid memory address or nil pointer dereference"))
	}
	dt := i.namedType("encoding/xml", "Decoder")
	r, _ := (*p).(structure)[fieldIndex(dt, "r")].(iface)
	return r
}

// (*xml.Decoder).Token: the reader must offer NextXMLTok() (kind int, a, b string, attrs []hx.XAttr)
// kinds: 0 StartElement(space=a, local=b, attrs) 1 EndElement 2 CharData(a) 3 Comment(a)
// 4 ProcInst(target=a, inst=b) 5 Directive(a) 8 io.EOF 9 error
func extXMLToken(fr *frame, args []value) value {
	i := fr.i
	r := i.scriptReader(i.xmlDecoderReader(args))
	res, ok := i.callMethod(fr, r, "NextXMLTok")
	if !ok {
		panic(abortPath{"unsupported", "encoding/xml tokenizer on a real reader (only scripted token streams are encoded)"})
	}
	t := res.(tuple)
	kind := int(asInt64(t[0]))
	a, b := t[1], t[2]
	name := func(space, local value) structure { return structure{space, local} }
	bytesOf := func(s value) []value {
		bs := strBytes(s)
		cp := make([]value, len(bs))
		copy(cp, bs)
		return cp
	}
	switch kind {
	case 0:
		var attrs []value
		if t[3] != nil {
			for _, x := range t[3].([]value) {
				xa := x.(structure) // hx.XAttr{Space, Local, Value string}
				attrs = append(attrs, structure{name(xa[0], xa[1]), xa[2]})
			}
		}
		se := structure{name(a, b), attrs}
		return tuple{iface{t: i.namedType("encoding/xml", "StartElement"), v: se}, iface{}}
	case 1:
		return tuple{iface{t: i.namedType("encoding/xml", "EndElement"), v: structure{name(a, b)}}, iface{}}
	case 2:
		return tuple{iface{t: i.namedType("encoding/xml", "CharData"), v: bytesOf(a)}, iface{}}
	case 3:
		return tuple{iface{t: i.namedType("encoding/xml", "Comment"), v: bytesOf(a)}, iface{}}
	case 4:
		return tuple{iface{t: i.namedType("encoding/xml", "ProcInst"), v: structure{a, bytesOf(b)}}, iface{}}
	case 5:
		return tuple{iface{t: i.namedType("encoding/xml", "Directive"), v: bytesOf(a)}, iface{}}
	case 8:
		return tuple{iface{}, i.globalValue("io", "EOF")}
	}
	return tuple{iface{}, i.newError(fr, "XML syntax error (scripted)")}
}

// html.Parse: the reader must offer HTMLDoc() *html.Node (a DOM built by the harness).
func extHTMLParse(fr *frame, args []value) value {
	i := fr.i
	r, _ := args[0].(iface)
	r = i.scriptReader(r)
	res, ok := i.callMethod(fr, r, "HTMLDoc")
	if !ok {
		panic(abortPath{"unsupported", "x/net/html tree builder on a real reader (only scripted DOMs are encoded)"})
	}
	return tuple{res, iface{}}
}

// sort.Slice / sort.SliceStable (reflection-based swapper in the real code):
// insertion sort driven by the target's less function. Equal elements keep
// their order (sort.Slice natively gives no such guarantee; callers must not
// depend on it).
func extSortSlice(fr *frame, args []value) value {
	i := fr.i
	x, _ := args[0].(iface)
	s, ok := x.v.([]value)
	if !ok {
		panic(abortPath{"unsupported", "sort.Slice on a non-slice"})
	}
	less := args[1]
	for a := 1; a < len(s); a++ {
		for b := a; b > 0; b-- {
			r := call(i, fr, 0, less, []value{b, b - 1})
			lt := false
			switch r := r.(type) {
			case bool:
				lt = r
			case symv:
				lt = i.branch(r.t)
			}
			if !lt {
				break
			}
			i.logStore(&s[b])
			i.logStore(&s[b-1])
			s[b], s[b-1] = s[b-1], s[b]
		}
	}
	return nil
}

func init() {
	externals["sort.Slice"] = extSortSlice
	externals["sort.SliceStable"] = extSortSlice
}

// File system and MIME table stubs for the CLI harness: extensions map to the
// media types of Go's built-in table; os.Open always fails with ErrNotExist (the
// harness only observes how far the command got).
var mimeByExt = map[string]string{
	".xml": "text/xml; charset=utf-8", ".svg": "image/svg+xml", ".html": "text/html; charset=utf-8",
	".htm": "text/html; charset=utf-8", ".json": "application/json", ".png": "image/png",
	".css": "text/css; charset=utf-8", ".pdf": "application/pdf", ".js": "text/javascript; charset=utf-8", ".gif": "image/gif",
}

func init() {
	externals["mime.TypeByExtension"] = func(fr *frame, args []value) value {
		ext, ok := args[0].(string)
		if !ok {
			panic(abortPath{"unsupported", "mime.TypeByExtension of a symbolic extension"})
		}
		return mimeByExt[ext]
	}
	externals["os.Open"] = func(fr *frame, args []value) value {
		return tuple{(*value)(nil), fr.i.newError(fr, "open: no such file or directory (stub)")}
	}
}
