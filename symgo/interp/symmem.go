// Memory helpers: symbolic element addresses, logged append/copy, protected
// sets (write monitor), store dispatch.
//
// Part of symgo (/verif).

package interp

import (
	"fmt"
	"go/types"
)

func mustDeref(t types.Type) types.Type {
	if p, ok := t.Underlying().(*types.Pointer); ok {
		return p.Elem()
	}
	panic(fmt.Sprintf("mustDeref: %s is not a pointer", t))
}

// symElemAddr is &elems[idx] with a symbolic index: it can be loaded (an ite
// chain over the candidates) but not stored through.
type symElemAddr struct {
	elems []value
	idx   symv
}

func (i *interpreter) symIndexAddr(elems []value, idx symv) value {
	// if elements are scalars: keep the address symbolic (table lookups);
	// otherwise concretise the index by forking.
	scalar := true
	for _, e := range elems {
		switch e.(type) {
		case bool, int, int8, int16, int32, int64, uint, uint8, uint16, uint32, uint64, uintptr, float32, float64, symv:
		default:
			scalar = false
		}
		if !scalar {
			break
		}
	}
	if scalar && len(elems) > 0 {
		return &symElemAddr{elems: elems, idx: idx}
	}
	c := i.concreteInt(idx, len(elems), false)
	if c < 0 {
		panic(runtimeErrorString("index out of range"))
	}
	return &elems[c]
}

// symSelect returns elems[idx] for a symbolic idx: out-of-range is a fork that
// panics; in range the result is an ite chain grouped by runs of equal values.
func (i *interpreter) symSelect(elems []value, idx symv) value {
	tb := i.tb
	w := kindBits(idx.k)
	n := len(elems)
	inRange := tb.tt
	if w >= 64 || uint64(n) < (uint64(1)<<uint(w)) {
		inRange = tb.bvCmp(opBVUlt, idx.t, tb.BV(w, uint64(n)))
	}
	// (a negative signed index is a huge unsigned value, so the unsigned
	// comparison covers it whenever the comparison is needed at all)
	if kindSigned(idx.k) && inRange.isTrue() {
		inRange = tb.bvCmp(opBVSle, tb.BV(w, 0), idx.t)
	}
	if !i.branch(inRange) {
		panic(runtimeErrorString(fmt.Sprintf("index out of range with length %d", n)))
	}
	if n == 0 {
		panic(runtimeErrorString("index out of range with length 0"))
	}
	k := valueKind(elems[0])
	// non-scalar elements: concretise
	for _, e := range elems {
		if valueKind(e) == types.Invalid || valueKind(e) == types.String {
			c := i.concreteInt(idx, n, false)
			return elems[c]
		}
	}
	// runs of identical elements
	type run struct {
		lo, hi int
		t      *Term
	}
	var runs []run
	for j, e := range elems {
		t := i.lift(e)
		if len(runs) > 0 && runs[len(runs)-1].t == t {
			runs[len(runs)-1].hi = j
		} else {
			runs = append(runs, run{j, j, t})
		}
	}
	res := runs[len(runs)-1].t
	for j := len(runs) - 2; j >= 0; j-- {
		r := runs[j]
		var c *Term
		if r.lo == r.hi {
			c = tb.Eq(idx.t, tb.BV(w, uint64(r.lo)))
		} else {
			c = tb.bvCmp(opBVUle, idx.t, tb.BV(w, uint64(r.hi)))
			// runs are visited in increasing order, earlier runs already excluded
		}
		res = tb.Ite(c, r.t, res)
	}
	return mkval(res, k)
}

// storeTo handles Store instructions (address may be symbolic).
func (i *interpreter) storeTo(T types.Type, addr value, v value) {
	switch a := addr.(type) {
	case *value:
		if a == nil {
			panic(runtimeErrorString("invalid memory address or nil pointer dereference"))
		}
		i.store(T, a, v)
	case *symElemAddr:
		c := i.concreteInt(a.idx, len(a.elems), false)
		if c < 0 {
			panic(runtimeErrorString("index out of range"))
		}
		i.store(T, &a.elems[c], v)
	default:
		panic(fmt.Sprintf("storeTo: unexpected address %T", addr))
	}
}

// appendValues is append(a, b...) with the writes into spare capacity logged.
func (i *interpreter) appendValues(a, b []value) []value {
	if len(b) == 0 {
		return a
	}
	if len(a)+len(b) <= cap(a) {
		ext := a[len(a) : len(a)+len(b)]
		for k := range ext {
			i.logStore(&ext[k])
		}
	}
	return append(a, b...)
}

func (i *interpreter) copyValues(dst, src []value) int {
	n := len(dst)
	if len(src) < n {
		n = len(src)
	}
	for k := 0; k < n; k++ {
		i.logStore(&dst[k])
	}
	return copy(dst, src)
}

// ---- write monitor -----------------------------------------------------------------

type protectSet struct {
	id        string
	cells     map[*value]string // cell -> description of how it is reachable
	maps      map[*omap]bool
	logStart  int
	mapWrites []string
}

func (i *interpreter) newProtect(id string, roots []value) *protectSet {
	ps := &protectSet{id: id, cells: map[*value]string{}, maps: map[*omap]bool{}, logStart: len(i.undo)}
	seenSlices := map[*value]bool{}
	var walk func(v value, desc string, depth int)
	walk = func(v value, desc string, depth int) {
		if depth > 200 {
			return
		}
		switch v := v.(type) {
		case *value:
			if v == nil {
				return
			}
			if _, ok := ps.cells[v]; ok {
				return
			}
			ps.cells[v] = desc
			walk(*v, desc+".*", depth+1)
		case []value:
			full := v[:cap(v)]
			if len(full) == 0 {
				return
			}
			if seenSlices[&full[0]] && len(full) > 0 {
				// may be a different window of the same array; still walk cells not yet seen
			}
			seenSlices[&full[0]] = true
			for k := range full {
				c := &full[k]
				if _, ok := ps.cells[c]; ok {
					continue
				}
				ps.cells[c] = fmt.Sprintf("%s[%d]", desc, k)
				walk(full[k], fmt.Sprintf("%s[%d]", desc, k), depth+1)
			}
		case structure:
			for k := range v {
				walk(v[k], fmt.Sprintf("%s.f%d", desc, k), depth+1)
			}
		case array:
			for k := range v {
				walk(v[k], fmt.Sprintf("%s[%d]", desc, k), depth+1)
			}
		case iface:
			walk(v.v, desc, depth+1)
		case *omap:
			if v == nil || ps.maps[v] {
				return
			}
			ps.maps[v] = true
			for _, e := range v.entries {
				if e.live {
					walk(e.key, desc+".key", depth+1)
					walk(e.val, desc+".val", depth+1)
				}
			}
		case *closure:
			for k, e := range v.Env {
				walk(e, fmt.Sprintf("%s.env%d", desc, k), depth+1)
			}
		case tuple:
			for k := range v {
				walk(v[k], desc, depth+1)
			}
		}
	}
	for k, r := range roots {
		walk(r, fmt.Sprintf("root%d", k), 0)
	}
	return ps
}

// writesSince lists the protected cells written since the protect call;
// netOnly restricts to cells whose value differs now from before.
func (i *interpreter) protectedWrites(ps *protectSet, netOnly bool) []string {
	var out []string
	first := map[*value]value{}
	var order []*value
	for k := ps.logStart; k < len(i.undo); k++ {
		r := i.undo[k]
		if r.addr == nil {
			continue
		}
		if _, ok := ps.cells[r.addr]; !ok {
			continue
		}
		if _, seen := first[r.addr]; !seen {
			first[r.addr] = r.old
			order = append(order, r.addr)
		}
	}
	for _, a := range order {
		if netOnly && sameValueShallow(first[a], *a) {
			continue
		}
		out = append(out, ps.cells[a])
	}
	out = append(out, ps.mapWrites...)
	return out
}

func sameValueShallow(a, b value) bool {
	defer func() { recover() }()
	switch a := a.(type) {
	case []value:
		bb, ok := b.([]value)
		if !ok {
			return false
		}
		if len(a) != len(bb) || cap(a) != cap(bb) {
			return false
		}
		if cap(a) == 0 {
			return true
		}
		return &a[:1][0] == &bb[:1][0]
	case structure, array, tuple:
		return false
	case iface:
		bb, ok := b.(iface)
		if !ok {
			return false
		}
		return sameType(a.t, bb.t) && sameValueShallow(a.v, bb.v)
	case symv:
		bb, ok := b.(symv)
		return ok && a.t == bb.t
	case symstr:
		bb, ok := b.(symstr)
		if !ok || len(a) != len(bb) {
			return false
		}
		for k := range a {
			if !sameValueShallow(a[k], bb[k]) {
				return false
			}
		}
		return true
	case *closure:
		bb, ok := b.(*closure)
		return ok && a == bb
	}
	return a == b
}
