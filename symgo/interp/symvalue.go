// Symbolic values and the symbolic semantics of SSA operators.
//
// Part of symgo (/verif).

package interp

import (
	"fmt"
	"go/token"
	"go/types"
	"math"
	"unicode/utf8"
	"unsafe"
)

// symv is a symbolic scalar: bool, any integer kind, float32/float64.
type symv struct {
	t *Term
	k types.BasicKind
}

// symstr is a string of concrete length whose bytes may be symbolic; each
// element is a uint8 or a symv of kind Uint8. Immutable.
type symstr []value

func isSym(v value) bool {
	switch v.(type) {
	case symv, symstr:
		return true
	}
	return false
}

func kindOf(t types.Type) types.BasicKind {
	if b, ok := t.Underlying().(*types.Basic); ok {
		k := b.Kind()
		switch k {
		case types.UntypedBool:
			return types.Bool
		case types.UntypedInt:
			return types.Int
		case types.UntypedRune:
			return types.Int32
		case types.UntypedFloat:
			return types.Float64
		case types.UntypedString:
			return types.String
		}
		return k
	}
	return types.Invalid
}

func kindBits(k types.BasicKind) int {
	switch k {
	case types.Int8, types.Uint8:
		return 8
	case types.Int16, types.Uint16:
		return 16
	case types.Int32, types.Uint32:
		return 32
	case types.Int, types.Uint, types.Int64, types.Uint64, types.Uintptr:
		return 64
	}
	return 0
}

func kindSigned(k types.BasicKind) bool {
	switch k {
	case types.Int, types.Int8, types.Int16, types.Int32, types.Int64:
		return true
	}
	return false
}

func kindIsInt(k types.BasicKind) bool { return kindBits(k) != 0 }

func kindIsFloat(k types.BasicKind) bool { return k == types.Float32 || k == types.Float64 }

func kindSort(k types.BasicKind) Sort {
	switch k {
	case types.Bool:
		return sortBool
	case types.Float64:
		return sortF64
	case types.Float32:
		return sortF32
	}
	if b := kindBits(k); b != 0 {
		return bvSort(b)
	}
	panic(fmt.Sprintf("no sort for kind %v", k))
}

// valueKind returns the basic kind of a concrete scalar value.
func valueKind(v value) types.BasicKind {
	switch v := v.(type) {
	case bool:
		return types.Bool
	case int:
		return types.Int
	case int8:
		return types.Int8
	case int16:
		return types.Int16
	case int32:
		return types.Int32
	case int64:
		return types.Int64
	case uint:
		return types.Uint
	case uint8:
		return types.Uint8
	case uint16:
		return types.Uint16
	case uint32:
		return types.Uint32
	case uint64:
		return types.Uint64
	case uintptr:
		return types.Uintptr
	case float32:
		return types.Float32
	case float64:
		return types.Float64
	case string:
		return types.String
	case symv:
		return v.k
	case symstr:
		return types.String
	}
	return types.Invalid
}

// lift returns the term of a scalar value (constant for concrete values).
func (i *interpreter) lift(v value) *Term {
	tb := i.tb
	switch v := v.(type) {
	case symv:
		return v.t
	case bool:
		return tb.Bool(v)
	case int:
		return tb.BV(64, uint64(v))
	case int8:
		return tb.BV(8, uint64(v))
	case int16:
		return tb.BV(16, uint64(v))
	case int32:
		return tb.BV(32, uint64(v))
	case int64:
		return tb.BV(64, uint64(v))
	case uint:
		return tb.BV(64, uint64(v))
	case uint8:
		return tb.BV(8, uint64(v))
	case uint16:
		return tb.BV(16, uint64(v))
	case uint32:
		return tb.BV(32, uint64(v))
	case uint64:
		return tb.BV(64, v)
	case uintptr:
		return tb.BV(64, uint64(v))
	case float64:
		return tb.F64(v)
	case float32:
		return tb.F32(v)
	}
	panic(fmt.Sprintf("lift: unexpected %T", v))
}

// concreteOf turns constant bits into a Go value of kind k.
func concreteOf(k types.BasicKind, bits uint64) value {
	switch k {
	case types.Bool:
		return bits != 0
	case types.Int:
		return int(bits)
	case types.Int8:
		return int8(bits)
	case types.Int16:
		return int16(bits)
	case types.Int32:
		return int32(bits)
	case types.Int64:
		return int64(bits)
	case types.Uint:
		return uint(bits)
	case types.Uint8:
		return uint8(bits)
	case types.Uint16:
		return uint16(bits)
	case types.Uint32:
		return uint32(bits)
	case types.Uint64:
		return bits
	case types.Uintptr:
		return uintptr(bits)
	case types.Float64:
		return math.Float64frombits(bits)
	case types.Float32:
		return math.Float32frombits(uint32(bits))
	}
	panic(fmt.Sprintf("concreteOf: kind %v", k))
}

// mkval wraps a term as a value, folding constants to concrete Go values.
func mkval(t *Term, k types.BasicKind) value {
	if t.isConst() {
		return concreteOf(k, t.val)
	}
	return symv{t: t, k: k}
}

// mkstr normalises a byte vector into a Go string when fully concrete.
func mkstr(bs []value) value {
	for _, b := range bs {
		if _, ok := b.(uint8); !ok {
			cp := make(symstr, len(bs))
			copy(cp, bs)
			return cp
		}
	}
	buf := make([]byte, len(bs))
	for i, b := range bs {
		buf[i] = b.(uint8)
	}
	return string(buf)
}

// strBytes returns the bytes of a string value (concrete or symbolic).
func strBytes(v value) []value {
	switch v := v.(type) {
	case string:
		r := make([]value, len(v))
		for i := 0; i < len(v); i++ {
			r[i] = v[i]
		}
		return r
	case symstr:
		return []value(v)
	}
	panic(fmt.Sprintf("strBytes: %T", v))
}

func strLen(v value) int {
	switch v := v.(type) {
	case string:
		return len(v)
	case symstr:
		return len(v)
	}
	panic(fmt.Sprintf("strLen: %T", v))
}

// ---- equality -------------------------------------------------------------

// eqTerm returns the (possibly constant) term for x == y at static type t.
func (i *interpreter) eqTerm(t types.Type, x, y value) *Term {
	tb := i.tb
	switch x := x.(type) {
	case symstr, string:
		xb, yb := strBytes(x), strBytes(y)
		if len(xb) != len(yb) {
			return tb.ff
		}
		r := tb.tt
		for j := range xb {
			r = tb.And(r, tb.Eq(i.lift(xb[j]), i.lift(yb[j])))
			if r.isFalse() {
				return r
			}
		}
		return r
	case symv:
		return i.scalarEq(x.k, x, y)
	case structure:
		y := y.(structure)
		tStruct := t.Underlying().(*types.Struct)
		r := tb.tt
		for j, n := 0, tStruct.NumFields(); j < n; j++ {
			if f := tStruct.Field(j); f.Name() != "_" {
				r = tb.And(r, i.eqTerm(f.Type(), x[j], y[j]))
				if r.isFalse() {
					return r
				}
			}
		}
		return r
	case array:
		y := y.(array)
		tElt := t.Underlying().(*types.Array).Elem()
		r := tb.tt
		for j := range x {
			r = tb.And(r, i.eqTerm(tElt, x[j], y[j]))
			if r.isFalse() {
				return r
			}
		}
		return r
	case iface:
		y := y.(iface)
		if !sameType(x.t, y.t) {
			return tb.ff
		}
		if x.t == nil {
			return tb.tt
		}
		return i.eqTerm(x.t, x.v, y.v)
	}
	if ys, ok := y.(symv); ok {
		return i.scalarEq(ys.k, x, y)
	}
	return tb.Bool(equals(t, x, y))
}

func (i *interpreter) scalarEq(k types.BasicKind, x, y value) *Term {
	tx, ty := i.lift(x), i.lift(y)
	if kindIsFloat(k) {
		return i.tb.fpCmp(opFPEq, tx, ty)
	}
	return i.tb.Eq(tx, ty)
}

func containsSym(v value) bool {
	switch v := v.(type) {
	case symv, symstr:
		return true
	case structure:
		for _, e := range v {
			if containsSym(e) {
				return true
			}
		}
	case array:
		for _, e := range v {
			if containsSym(e) {
				return true
			}
		}
	case iface:
		return containsSym(v.v)
	}
	return false
}

// ---- binary operators -------------------------------------------------------

func (i *interpreter) symBinop(op token.Token, t types.Type, x, y value) value {
	tb := i.tb
	k := kindOf(t)
	if k == types.Invalid {
		// composite comparison
		switch op {
		case token.EQL:
			return mkval(i.eqTerm(t, x, y), types.Bool)
		case token.NEQ:
			return mkval(tb.Not(i.eqTerm(t, x, y)), types.Bool)
		}
		panic(fmt.Sprintf("symBinop: %s on %s", op, t))
	}
	if k == types.String {
		return i.symStringOp(op, x, y)
	}
	if k == types.Bool {
		tx, ty := i.lift(x), i.lift(y)
		switch op {
		case token.EQL:
			return mkval(tb.Eq(tx, ty), types.Bool)
		case token.NEQ:
			return mkval(tb.Not(tb.Eq(tx, ty)), types.Bool)
		case token.LAND, token.AND:
			return mkval(tb.And(tx, ty), types.Bool)
		case token.LOR, token.OR:
			return mkval(tb.Or(tx, ty), types.Bool)
		}
		panic(fmt.Sprintf("symBinop: %s on bool", op))
	}
	if kindIsFloat(k) {
		tx, ty := i.lift(x), i.lift(y)
		switch op {
		case token.ADD:
			return mkval(tb.fpBin(opFPAdd, tx, ty), k)
		case token.SUB:
			return mkval(tb.fpBin(opFPSub, tx, ty), k)
		case token.MUL:
			return mkval(tb.fpBin(opFPMul, tx, ty), k)
		case token.QUO:
			return mkval(tb.fpBin(opFPDiv, tx, ty), k)
		case token.EQL:
			return mkval(tb.fpCmp(opFPEq, tx, ty), types.Bool)
		case token.NEQ:
			return mkval(tb.Not(tb.fpCmp(opFPEq, tx, ty)), types.Bool)
		case token.LSS:
			return mkval(tb.fpCmp(opFPLt, tx, ty), types.Bool)
		case token.LEQ:
			return mkval(tb.fpCmp(opFPLe, tx, ty), types.Bool)
		case token.GTR:
			return mkval(tb.fpCmp(opFPLt, ty, tx), types.Bool)
		case token.GEQ:
			return mkval(tb.fpCmp(opFPLe, ty, tx), types.Bool)
		}
		panic(fmt.Sprintf("symBinop: %s on float", op))
	}
	if !kindIsInt(k) {
		panic(fmt.Sprintf("symBinop: %s on kind %v", op, k))
	}
	w := kindBits(k)
	signed := kindSigned(k)
	tx := i.lift(x)
	if op == token.SHL || op == token.SHR {
		// shift count has its own type; negative counts panic in Go.
		yk := valueKind(y)
		ty := i.lift(y)
		yw := kindBits(yk)
		if kindSigned(yk) {
			neg := tb.bvCmp(opBVSlt, ty, tb.BV(yw, 0))
			if i.branch(neg) {
				panic(runtimeErrorString("negative shift amount"))
			}
		}
		// bring the count to width w, saturating.
		var cnt *Term
		if yw == w {
			cnt = ty
		} else if yw < w {
			cnt = tb.ZeroExt(w-yw, ty)
		} else {
			big := tb.bvCmp(opBVUle, tb.BV(yw, uint64(w)), ty)
			cnt = tb.Ite(big, tb.BV(w, uint64(w)), tb.Extract(w-1, 0, ty))
		}
		switch {
		case op == token.SHL:
			return mkval(tb.bvBin(opBVShl, tx, cnt), k)
		case signed:
			return mkval(tb.bvBin(opBVAShr, tx, cnt), k)
		default:
			return mkval(tb.bvBin(opBVLShr, tx, cnt), k)
		}
	}
	ty := i.lift(y)
	switch op {
	case token.ADD:
		return mkval(tb.bvBin(opBVAdd, tx, ty), k)
	case token.SUB:
		return mkval(tb.bvBin(opBVSub, tx, ty), k)
	case token.MUL:
		return mkval(tb.bvBin(opBVMul, tx, ty), k)
	case token.QUO, token.REM:
		if i.branch(tb.Eq(ty, tb.BV(w, 0))) {
			panic(runtimeErrorString("integer divide by zero"))
		}
		var o opKind
		switch {
		case op == token.QUO && signed:
			o = opBVSDiv
		case op == token.QUO:
			o = opBVUDiv
		case signed:
			o = opBVSRem
		default:
			o = opBVURem
		}
		return mkval(tb.bvBin(o, tx, ty), k)
	case token.AND:
		return mkval(tb.bvBin(opBVAnd, tx, ty), k)
	case token.OR:
		return mkval(tb.bvBin(opBVOr, tx, ty), k)
	case token.XOR:
		return mkval(tb.bvBin(opBVXor, tx, ty), k)
	case token.AND_NOT:
		return mkval(tb.bvBin(opBVAnd, tx, tb.BVNot(ty)), k)
	case token.EQL:
		return mkval(tb.Eq(tx, ty), types.Bool)
	case token.NEQ:
		return mkval(tb.Not(tb.Eq(tx, ty)), types.Bool)
	}
	lt, le := opBVUlt, opBVUle
	if signed {
		lt, le = opBVSlt, opBVSle
	}
	switch op {
	case token.LSS:
		return mkval(tb.bvCmp(lt, tx, ty), types.Bool)
	case token.LEQ:
		return mkval(tb.bvCmp(le, tx, ty), types.Bool)
	case token.GTR:
		return mkval(tb.bvCmp(lt, ty, tx), types.Bool)
	case token.GEQ:
		return mkval(tb.bvCmp(le, ty, tx), types.Bool)
	}
	panic(fmt.Sprintf("symBinop: unexpected %s", op))
}

type runtimeErrorString string

func (e runtimeErrorString) RuntimeError() {}
func (e runtimeErrorString) Error() string { return "runtime error: " + string(e) }

func (i *interpreter) symStringOp(op token.Token, x, y value) value {
	tb := i.tb
	xb, yb := strBytes(x), strBytes(y)
	switch op {
	case token.ADD:
		r := make([]value, 0, len(xb)+len(yb))
		r = append(r, xb...)
		r = append(r, yb...)
		return mkstr(r)
	case token.EQL:
		return mkval(i.eqTerm(nil, x, y), types.Bool)
	case token.NEQ:
		return mkval(tb.Not(i.eqTerm(nil, x, y)), types.Bool)
	}
	// lexicographic: lt(x,y) / le(x,y) built from the end.
	n := len(xb)
	if len(yb) < n {
		n = len(yb)
	}
	// tail value when the common prefix is equal
	ltTail := tb.Bool(len(xb) < len(yb))
	leTail := tb.Bool(len(xb) <= len(yb))
	build := func(tail *Term) *Term {
		r := tail
		for j := n - 1; j >= 0; j-- {
			a, b := i.lift(xb[j]), i.lift(yb[j])
			r = tb.Ite(tb.bvCmp(opBVUlt, a, b), tb.tt, tb.Ite(tb.Eq(a, b), r, tb.ff))
		}
		return r
	}
	switch op {
	case token.LSS:
		return mkval(build(ltTail), types.Bool)
	case token.LEQ:
		return mkval(build(leTail), types.Bool)
	case token.GTR:
		return mkval(tb.Not(build(leTail)), types.Bool)
	case token.GEQ:
		return mkval(tb.Not(build(ltTail)), types.Bool)
	}
	panic(fmt.Sprintf("symStringOp: %s", op))
}

// ---- unary ------------------------------------------------------------------

func (i *interpreter) symUnop(op token.Token, x symv) value {
	tb := i.tb
	switch op {
	case token.SUB:
		if kindIsFloat(x.k) {
			return mkval(tb.fpUn(opFPNeg, x.t, 0), x.k)
		}
		return mkval(tb.BVNeg(x.t), x.k)
	case token.NOT:
		return mkval(tb.Not(x.t), types.Bool)
	case token.XOR:
		return mkval(tb.BVNot(x.t), x.k)
	}
	panic(fmt.Sprintf("symUnop: %s", op))
}

// ---- conversions --------------------------------------------------------------

// float→int conversion as executed by the amd64 code generated by gc:
// CVTTSD2SQ / CVTTSD2SL return the "integer indefinite" value (MinInt) for NaN
// and out-of-range inputs; narrower results are truncations of the 32-bit
// result; uint32 goes through the 64-bit conversion; uint64 is split at 2^63.
func (i *interpreter) fpToInt(x *Term, dst types.BasicKind) *Term {
	tb := i.tb
	if x.sort.k == sF32 {
		x = tb.FPToFP(sortF64, x)
	}
	cvt64 := func(v *Term) *Term {
		bad := tb.Or(tb.fpUn(opFPIsNaN, v, 0),
			tb.Or(tb.fpCmp(opFPLe, tb.F64(9223372036854775808.0), v),
				tb.fpCmp(opFPLt, v, tb.F64(-9223372036854775808.0))))
		return tb.Ite(bad, tb.BV(64, 1<<63), tb.FPToSBV(64, v))
	}
	cvt32 := func(v *Term) *Term {
		bad := tb.Or(tb.fpUn(opFPIsNaN, v, 0),
			tb.Or(tb.fpCmp(opFPLe, tb.F64(2147483648.0), v),
				tb.fpCmp(opFPLe, v, tb.F64(-2147483649.0))))
		return tb.Ite(bad, tb.BV(32, 1<<31), tb.FPToSBV(32, v))
	}
	switch dst {
	case types.Int, types.Int64:
		return cvt64(x)
	case types.Int32:
		return cvt32(x)
	case types.Int16, types.Uint16:
		return tb.Extract(15, 0, cvt32(x))
	case types.Int8, types.Uint8:
		return tb.Extract(7, 0, cvt32(x))
	case types.Uint32:
		return tb.Extract(31, 0, cvt64(x))
	case types.Uint, types.Uint64, types.Uintptr:
		two63 := tb.F64(9223372036854775808.0)
		small := tb.fpCmp(opFPLt, x, two63)
		hi := tb.bvBin(opBVXor, cvt64(tb.fpBin(opFPSub, x, two63)), tb.BV(64, 1<<63))
		// NaN: comparison false → hi branch: cvt64(NaN)=MinInt64 ^ MinInt64 = 0? gc
		// emits: if x < 2^63 {cvt(x)} else {cvt(x-2^63) ^ 1<<63}; NaN takes else.
		return tb.Ite(small, cvt64(x), hi)
	}
	panic(fmt.Sprintf("fpToInt: kind %v", dst))
}

func (i *interpreter) symConvScalar(dst types.BasicKind, x symv) value {
	tb := i.tb
	src := x.k
	switch {
	case kindIsInt(src) && kindIsInt(dst):
		sw, dw := kindBits(src), kindBits(dst)
		switch {
		case dw == sw:
			return mkval(x.t, dst)
		case dw < sw:
			return mkval(tb.Extract(dw-1, 0, x.t), dst)
		case kindSigned(src):
			return mkval(tb.SignExt(dw-sw, x.t), dst)
		default:
			return mkval(tb.ZeroExt(dw-sw, x.t), dst)
		}
	case kindIsInt(src) && kindIsFloat(dst):
		if kindSigned(src) {
			return mkval(tb.SBVToFP(kindSort(dst), x.t), dst)
		}
		return mkval(tb.UBVToFP(kindSort(dst), x.t), dst)
	case kindIsFloat(src) && kindIsFloat(dst):
		return mkval(tb.FPToFP(kindSort(dst), x.t), dst)
	case kindIsFloat(src) && kindIsInt(dst):
		return mkval(i.fpToInt(x.t, dst), dst)
	case src == types.Bool && dst == types.Bool:
		return x
	}
	panic(fmt.Sprintf("symConvScalar: %v -> %v", src, dst))
}

// decodeRuneSym decodes the first UTF-8 sequence of bs, forking on byte
// classes, with the semantics of utf8.DecodeRune (invalid → RuneError, 1).
func (i *interpreter) decodeRuneSym(bs []value) (value, int) {
	if len(bs) == 0 {
		return int32(utf8.RuneError), 0
	}
	tb := i.tb
	b0 := bs[0]
	if c, ok := b0.(uint8); ok {
		// concrete lead byte; continuation bytes may be symbolic
		if c < utf8.RuneSelf {
			return int32(c), 1
		}
	}
	t0 := i.lift(b0)
	lt := func(a *Term, c uint64) *Term { return tb.bvCmp(opBVUlt, a, tb.BV(8, c)) }
	rng := func(a *Term, lo, hi uint64) *Term {
		return tb.And(tb.bvCmp(opBVUle, tb.BV(8, lo), a), tb.bvCmp(opBVUle, a, tb.BV(8, hi)))
	}
	if i.branch(lt(t0, 0x80)) {
		return mkval(tb.ZeroExt(24, t0), types.Int32), 1
	}
	inv := func() (value, int) { return int32(utf8.RuneError), 1 }
	ext := func(a *Term, m uint64) *Term { // (a & m) zero-extended to 32
		return tb.ZeroExt(24, tb.bvBin(opBVAnd, a, tb.BV(8, m)))
	}
	shl := func(a *Term, n uint64) *Term { return tb.bvBin(opBVShl, a, tb.BV(32, n)) }
	or := func(a, b *Term) *Term { return tb.bvBin(opBVOr, a, b) }
	// 2-byte: C2..DF
	if i.branch(rng(t0, 0xC2, 0xDF)) {
		if len(bs) < 2 {
			return inv()
		}
		t1 := i.lift(bs[1])
		if !i.branch(rng(t1, 0x80, 0xBF)) {
			return inv()
		}
		return mkval(or(shl(ext(t0, 0x1F), 6), ext(t1, 0x3F)), types.Int32), 2
	}
	// 3-byte: E0..EF with accept ranges on the second byte
	if i.branch(rng(t0, 0xE0, 0xEF)) {
		if len(bs) < 3 {
			return inv()
		}
		t1, t2 := i.lift(bs[1]), i.lift(bs[2])
		lo := tb.Ite(tb.Eq(t0, tb.BV(8, 0xE0)), tb.BV(8, 0xA0), tb.BV(8, 0x80))
		hi := tb.Ite(tb.Eq(t0, tb.BV(8, 0xED)), tb.BV(8, 0x9F), tb.BV(8, 0xBF))
		ok1 := tb.And(tb.bvCmp(opBVUle, lo, t1), tb.bvCmp(opBVUle, t1, hi))
		if !i.branch(ok1) {
			return inv()
		}
		if !i.branch(rng(t2, 0x80, 0xBF)) {
			return inv()
		}
		return mkval(or(or(shl(ext(t0, 0x0F), 12), shl(ext(t1, 0x3F), 6)), ext(t2, 0x3F)), types.Int32), 3
	}
	// 4-byte: F0..F4
	if i.branch(rng(t0, 0xF0, 0xF4)) {
		if len(bs) < 4 {
			return inv()
		}
		t1, t2, t3 := i.lift(bs[1]), i.lift(bs[2]), i.lift(bs[3])
		lo := tb.Ite(tb.Eq(t0, tb.BV(8, 0xF0)), tb.BV(8, 0x90), tb.BV(8, 0x80))
		hi := tb.Ite(tb.Eq(t0, tb.BV(8, 0xF4)), tb.BV(8, 0x8F), tb.BV(8, 0xBF))
		ok1 := tb.And(tb.bvCmp(opBVUle, lo, t1), tb.bvCmp(opBVUle, t1, hi))
		if !i.branch(ok1) {
			return inv()
		}
		if !i.branch(rng(t2, 0x80, 0xBF)) {
			return inv()
		}
		if !i.branch(rng(t3, 0x80, 0xBF)) {
			return inv()
		}
		return mkval(or(or(or(shl(ext(t0, 0x07), 18), shl(ext(t1, 0x3F), 12)), shl(ext(t2, 0x3F), 6)), ext(t3, 0x3F)), types.Int32), 4
	}
	return inv()
}

// encodeRuneSym appends the UTF-8 encoding of rune r (utf8.AppendRune
// semantics: invalid runes become U+FFFD), forking on the size class.
func (i *interpreter) encodeRuneSym(out []value, r value) []value {
	if c, ok := r.(int32); ok {
		var buf [4]byte
		n := utf8.EncodeRune(buf[:], c)
		for _, b := range buf[:n] {
			out = append(out, b)
		}
		return out
	}
	tb := i.tb
	t := i.lift(r)
	c32 := func(v uint64) *Term { return tb.BV(32, v) }
	ult := func(a *Term, v uint64) *Term { return tb.bvCmp(opBVUlt, a, c32(v)) }
	b8 := func(a *Term) value { return mkval(tb.Extract(7, 0, a), types.Uint8) }
	shr := func(a *Term, n uint64) *Term { return tb.bvBin(opBVLShr, a, c32(n)) }
	and := func(a *Term, m uint64) *Term { return tb.bvBin(opBVAnd, a, c32(m)) }
	or := func(a *Term, m uint64) *Term { return tb.bvBin(opBVOr, a, c32(m)) }
	if i.branch(ult(t, 0x80)) {
		return append(out, b8(t))
	}
	if i.branch(ult(t, 0x800)) {
		return append(out, b8(or(shr(t, 6), 0xC0)), b8(or(and(t, 0x3F), 0x80)))
	}
	surrogate := tb.And(tb.bvCmp(opBVUle, c32(0xD800), t), tb.bvCmp(opBVUle, t, c32(0xDFFF)))
	bad := tb.Or(surrogate, tb.bvCmp(opBVUlt, c32(0x10FFFF), t))
	if i.branch(bad) {
		return append(out, uint8(0xEF), uint8(0xBF), uint8(0xBD))
	}
	if i.branch(ult(t, 0x10000)) {
		return append(out, b8(or(shr(t, 12), 0xE0)), b8(or(and(shr(t, 6), 0x3F), 0x80)), b8(or(and(t, 0x3F), 0x80)))
	}
	return append(out, b8(or(shr(t, 18), 0xF0)), b8(or(and(shr(t, 12), 0x3F), 0x80)),
		b8(or(and(shr(t, 6), 0x3F), 0x80)), b8(or(and(t, 0x3F), 0x80)))
}

// symStringIter ranges over a symbolic string.
type symStringIter struct {
	i  *interpreter
	bs []value
	p  int
}

func (it *symStringIter) next() tuple {
	okv := make(tuple, 3)
	if it.p >= len(it.bs) {
		okv[0] = false
		return okv
	}
	r, n := it.i.decodeRuneSym(it.bs[it.p:])
	okv[0] = true
	okv[1] = it.p
	okv[2] = r
	it.p += n
	return okv
}

var _ = unsafe.Pointer(nil)

// symConv handles conversions that involve symbolic data; ok=false means the
// concrete code path of conv applies.
func (i *interpreter) symConv(utDst, utSrc types.Type, x value) (value, bool) {
	switch x := x.(type) {
	case symv:
		if bd, ok := utDst.(*types.Basic); ok {
			if bd.Kind() == types.String && kindIsInt(x.k) {
				// string(rune)
				r := x
				if x.k != types.Int32 {
					r = i.symConvScalar(types.Int32, x).(symv)
				}
				return mkstr(i.encodeRuneSym(nil, r)), true
			}
			return i.symConvScalar(kindOf(bd), x), true
		}
	case symstr:
		switch d := utDst.(type) {
		case *types.Basic:
			if d.Kind() == types.String {
				return x, true
			}
		case *types.Slice:
			switch d.Elem().Underlying().(*types.Basic).Kind() {
			case types.Byte:
				res := make([]value, len(x))
				copy(res, x)
				return res, true
			case types.Rune:
				var res []value
				bs := []value(x)
				for p := 0; p < len(bs); {
					r, n := i.decodeRuneSym(bs[p:])
					res = append(res, r)
					p += n
				}
				return res, true
			}
		}
	case []value:
		if _, ok := utDst.(*types.Basic); ok {
			if s, ok := utSrc.(*types.Slice); ok {
				hasSym := false
				for _, e := range x {
					if isSym(e) {
						hasSym = true
						break
					}
				}
				if !hasSym {
					return nil, false
				}
				switch s.Elem().Underlying().(*types.Basic).Kind() {
				case types.Byte:
					return mkstr(x), true
				case types.Rune:
					var out []value
					for _, r := range x {
						out = i.encodeRuneSym(out, r)
					}
					return mkstr(out), true
				}
			}
		}
	}
	return nil, false
}
