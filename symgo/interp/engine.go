// Engine driver: worker set-up (package initialisation, harness Setup,
// checkpoint) and the exploration loop.
//
// Part of symgo (/verif).

package interp

import (
	"fmt"
	"go/token"
	"go/types"
	"os"
	"runtime"
	"runtime/debug"
	"strings"
	"sync"
	"time"

	"golang.org/x/tools/go/ssa"
)

// Harness describes one symbolic harness.
type Harness struct {
	Name     string                   // e.g. c06.RunArith
	Pkg      *ssa.Package             // harness package
	Run      *ssa.Function            // func()
	Setup    *ssa.Function            // func(), may be nil
	Models   map[string]*ssa.Function // full function name -> replacement
	InitOK   []string                 // package path prefixes whose init functions run
	CountPfx []string                 // package path prefixes counted in functions_encoded
}

type Result struct {
	Harness      string
	Stats        *Stats
	Violations   map[string][]Violation
	Counts       map[string]int
	Inconclusive map[string]int
	Witnesses    []Violation
	Concolic     []Violation
	WallS        float64
	SetupS       float64
	TimedOut     bool
	PathsCapped  bool
	WorkerErrors []string
}

var debugEngine = os.Getenv("SYMGO_DEBUG") != ""

func isInterpreterBug(r interface{}) bool {
	switch r := r.(type) {
	case targetPanic, runtimeErrorString, abortPath:
		return false
	case runtime.Error:
		msg := r.Error()
		if strings.Contains(msg, "interp.") || strings.Contains(msg, "assignment to entry in nil map") {
			return true
		}
		return false
	case string:
		return !isTargetRuntimeError(r)
	case error:
		return true
	}
	return true
}

func (i *interpreter) initAllowed(path string) bool {
	if ok, seen := i.initOK[path]; seen {
		return ok
	}
	ok := false
	for _, p := range i.initPfx {
		if path == p || strings.HasPrefix(path, p+"/") {
			ok = true
			break
		}
	}
	i.initOK[path] = ok
	return ok
}

func (i *interpreter) countFuncs(fn *ssa.Function) bool {
	path := fn.Pkg.Pkg.Path()
	for _, p := range i.countPfx {
		if path == p || strings.HasPrefix(path, p+"/") {
			return true
		}
	}
	return false
}

func newInterpreter(prog *ssa.Program, h *Harness, opts *Options, q *workQueue, sr *sharedResults, worker int) (*interpreter, error) {
	i := &interpreter{
		prog:       prog,
		globals:    make(map[*ssa.Global]*value),
		sizes:      &types.StdSizes{WordSize: 8, MaxAlign: 8},
		goroutines: 1,
		tb:         newTermTable(),
		opts:       opts,
		queue:      q,
		shared:     sr,
		stats:      newStats(),
		models:     h.Models,
		initOK:     map[string]bool{},
		initPfx:    h.InitOK,
		countPfx:   h.CountPfx,
		harness:    h.Name,
		runFn:      h.Run,
		persist:    map[string]value{},
		fastCache:  map[*Term]*[4]uint64{},
	}
	runtimePkg := prog.ImportedPackage("runtime")
	if runtimePkg == nil {
		return nil, fmt.Errorf("ssa.Program doesn't include runtime package")
	}
	i.runtimeErrorString = runtimePkg.Type("errorString").Object().Type()
	initReflect(i)
	for _, pkg := range prog.AllPackages() {
		for _, m := range pkg.Members {
			if v, ok := m.(*ssa.Global); ok {
				cell := zero(mustDeref(v.Type()))
				i.globals[v] = &cell
			}
		}
	}
	// the os package is not initialised; give the three standard streams
	// distinct identities so that writes to them can be told apart
	if osPkg := prog.ImportedPackage("os"); osPkg != nil {
		if ft, ok := osPkg.Members["File"].(*ssa.Type); ok {
			for _, name := range []string{"Stdin", "Stdout", "Stderr"} {
				if g, ok := osPkg.Members[name].(*ssa.Global); ok {
					cell := zero(ft.Type())
					*i.globals[g] = &cell
				}
			}
		}
	}
	var transcript *os.File
	if opts.Transcript != "" && worker == 0 {
		transcript, _ = os.Create(opts.Transcript)
	}
	var err error
	if transcript != nil {
		i.solver, err = newSolver(opts.SolverPath, solverZ3, transcript)
	} else {
		i.solver, err = newSolver(opts.SolverPath, solverZ3, nil)
	}
	if err != nil {
		return nil, err
	}
	i.solver.cvc5Path = opts.CVC5Path
	// concrete set-up phase
	i.inSetup = true
	var setupErr error
	func() {
		defer func() {
			if r := recover(); r != nil {
				setupErr = fmt.Errorf("setup failed: %v\n  target stack: %s", describePanic(r), i.fmtPanicStack())
				if debugEngine {
					debug.PrintStack()
				}
			}
		}()
		call(i, nil, token.NoPos, h.Pkg.Func("init"), nil)
		if h.Setup != nil {
			call(i, nil, token.NoPos, h.Setup, nil)
		}
	}()
	i.inSetup = false
	if setupErr != nil {
		i.solver.close()
		return nil, setupErr
	}
	i.logging = true
	i.checkpoint = 0
	i.witnessLeft = opts.WitnessPaths
	return i, nil
}

func describePanic(r interface{}) string {
	switch r := r.(type) {
	case targetPanic:
		return "target panic: " + toString(r.v)
	case abortPath:
		return r.kind + ": " + r.reason
	case error:
		return r.Error()
	}
	return fmt.Sprint(r)
}

// Explore runs the harness over all paths.
func Explore(prog *ssa.Program, h *Harness, opts Options) *Result {
	start := time.Now()
	if opts.Workers <= 0 {
		opts.Workers = 1
	}
	if opts.MaxViolations <= 0 {
		opts.MaxViolations = 3
	}
	q := newWorkQueue(opts.Workers)
	sr := &sharedResults{violations: map[string][]Violation{}, counts: map[string]int{}, inconclusive: map[string]int{}, maxPer: opts.MaxViolations}
	res := &Result{Harness: h.Name, Stats: newStats()}
	q.push([]int32{})
	var wg sync.WaitGroup
	var mu sync.Mutex
	var pathCount int64
	var setupMax float64
	for w := 0; w < opts.Workers; w++ {
		wg.Add(1)
		go func(w int) {
			defer wg.Done()
			t0 := time.Now()
			o := opts
			in, err := newInterpreter(prog, h, &o, q, sr, w)
			if err != nil {
				mu.Lock()
				res.WorkerErrors = append(res.WorkerErrors, err.Error())
				mu.Unlock()
				// this worker cannot work; make sure the queue can still finish
				q.mu.Lock()
				q.workers--
				if q.idle == q.workers {
					q.done = true
					q.cond.Broadcast()
				}
				q.mu.Unlock()
				return
			}
			su := time.Since(t0).Seconds()
			mu.Lock()
			if su > setupMax {
				setupMax = su
			}
			mu.Unlock()
			defer in.solver.close()
			for {
				var prefix []int32
				if n := len(in.local); n > 0 {
					// depth-first on the worker's own stack keeps related paths (and
					// their memoised set-up work) on one worker
					prefix = in.local[n-1]
					in.local = in.local[:n-1]
					if len(in.local) > 1 && q.hungry() {
						// donate the older half (the larger subtrees)
						half := len(in.local) / 2
						for _, p := range in.local[:half] {
							q.push(p)
						}
						in.local = append(in.local[:0:0], in.local[half:]...)
					}
				} else {
					var ok bool
					prefix, ok = q.pop()
					if !ok {
						break
					}
				}
				if !opts.Deadline.IsZero() && time.Now().After(opts.Deadline) {
					mu.Lock()
					res.TimedOut = true
					mu.Unlock()
					q.stop()
					break
				}
				mu.Lock()
				pathCount++
				capped := opts.MaxPaths > 0 && pathCount > int64(opts.MaxPaths)
				if capped {
					res.PathsCapped = true
				}
				mu.Unlock()
				if capped {
					q.stop()
					break
				}
				in.runPath(prefix)
				if in.tb.next > 400000 {
					// keep the term table and solver definitions bounded
					in.tb = newTermTable()
					in.fastCache = map[*Term]*[4]uint64{}
					in.solver.restart()
				}
			}
			in.stats.SolverSat = in.solver.nSat
			in.stats.SolverUnsat = in.solver.nUnsat
			in.stats.SolverUnknown = in.solver.nUnknown
			in.stats.SolverWallS = in.solver.wall.Seconds()
			in.stats.SolverErrors = in.solver.errors
			mu.Lock()
			res.Stats.merge(in.stats)
			mu.Unlock()
		}(w)
	}
	wg.Wait()
	res.Violations = sr.violations
	res.Counts = sr.counts
	res.Inconclusive = sr.inconclusive
	res.Witnesses = sr.witnesses
	res.Concolic = sr.concolic
	res.WallS = time.Since(start).Seconds()
	res.SetupS = setupMax
	return res
}

func (i *interpreter) fmtPanicStack() string {
	var sb strings.Builder
	st := i.panicStack
	for k := len(st) - 1; k >= 0 && k >= len(st)-12; k-- {
		sb.WriteString(st[k].String())
		sb.WriteString(" <- ")
	}
	return sb.String()
}
