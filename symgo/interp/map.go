// Insertion-ordered maps with undo support (replaces interp's use of native
// Go maps, whose iteration order is randomised: re-execution of a decision
// prefix must be deterministic).
//
// Part of symgo (/verif).

package interp

import (
	"fmt"
	"go/types"
	"strconv"
	"strings"
)

type mapEntry struct {
	key, val value
	live     bool
}

type omap struct {
	kt      types.Type
	entries []mapEntry
	index   map[interface{}]int // canonical concrete key -> position
	n       int
	symKeys bool // some key contains symbolic parts (no index for those)
}

func makeMap(kt types.Type, reserve int64) value {
	return &omap{kt: kt, index: make(map[interface{}]int)}
}

// canonKey returns a comparable Go value that identifies a fully concrete key.
func canonKey(v value) (interface{}, bool) {
	switch v := v.(type) {
	case bool, int, int8, int16, int32, int64, uint, uint8, uint16, uint32, uint64, uintptr,
		float32, float64, complex64, complex128, string, *value, chan value:
		return v, true
	case symv, symstr:
		return nil, false
	case rtype:
		return "rtype:" + v.t.String(), true
	}
	var sb strings.Builder
	if !canonWrite(&sb, v) {
		return nil, false
	}
	return sb.String(), true
}

func canonWrite(sb *strings.Builder, v value) bool {
	switch v := v.(type) {
	case symv, symstr:
		return false
	case string:
		sb.WriteString(strconv.Itoa(len(v)))
		sb.WriteByte(':')
		sb.WriteString(v)
	case structure:
		sb.WriteByte('{')
		for _, e := range v {
			if !canonWrite(sb, e) {
				return false
			}
			sb.WriteByte(',')
		}
		sb.WriteByte('}')
	case array:
		sb.WriteByte('[')
		for _, e := range v {
			if !canonWrite(sb, e) {
				return false
			}
			sb.WriteByte(',')
		}
		sb.WriteByte(']')
	case iface:
		sb.WriteByte('<')
		if v.t != nil {
			sb.WriteString(v.t.String())
		}
		sb.WriteByte('|')
		if !canonWrite(sb, v.v) {
			return false
		}
		sb.WriteByte('>')
	case nil:
		sb.WriteString("nil")
	case *value:
		fmt.Fprintf(sb, "%p", v)
	case rtype:
		sb.WriteString("rtype:" + v.t.String())
	default:
		fmt.Fprintf(sb, "%T:%v", v, v)
	}
	return true
}

// find locates key k; with symbolic keys it forks on equality.
func (m *omap) find(i *interpreter, k value) int {
	if m == nil {
		return -1
	}
	ck, conc := canonKey(k)
	if conc && !m.symKeys {
		if p, ok := m.index[ck]; ok {
			return p
		}
		return -1
	}
	for p := range m.entries {
		e := &m.entries[p]
		if !e.live {
			continue
		}
		if i.branch(i.eqTerm(m.kt, e.key, k)) {
			return p
		}
	}
	return -1
}

func (m *omap) lookup(i *interpreter, k value) (value, bool) {
	p := m.find(i, k)
	if p < 0 {
		return nil, false
	}
	return m.entries[p].val, true
}

func (m *omap) insert(i *interpreter, k, v value) {
	if m == nil {
		panic(runtimeErrorString("assignment to entry in nil map"))
	}
	if i.path != nil {
		for _, ps := range i.path.protects {
			if ps.maps[m] {
				ps.mapWrites = append(ps.mapWrites, "map update")
			}
		}
	}
	if p := m.find(i, k); p >= 0 {
		old := m.entries[p].val
		m.entries[p].val = v
		i.logFn(func() { m.entries[p].val = old })
		return
	}
	ck, conc := canonKey(k)
	p := len(m.entries)
	oldSym := m.symKeys
	m.entries = append(m.entries, mapEntry{key: k, val: v, live: true})
	m.n++
	if conc {
		m.index[ck] = p
	} else {
		m.symKeys = true
	}
	i.logFn(func() {
		m.entries = m.entries[:p]
		m.n--
		if conc {
			delete(m.index, ck)
		}
		m.symKeys = oldSym
	})
}

func (m *omap) delete(i *interpreter, k value) {
	if m == nil {
		return
	}
	p := m.find(i, k)
	if p < 0 {
		return
	}
	if i.path != nil {
		for _, ps := range i.path.protects {
			if ps.maps[m] {
				ps.mapWrites = append(ps.mapWrites, "map delete")
			}
		}
	}
	e := m.entries[p]
	m.entries[p].live = false
	m.n--
	ck, conc := canonKey(e.key)
	if conc {
		delete(m.index, ck)
	}
	i.logFn(func() {
		m.entries[p].live = true
		m.n++
		if conc {
			m.index[ck] = p
		}
	})
}

func (m *omap) len() int {
	if m == nil {
		return 0
	}
	return m.n
}

type omapIter struct {
	m       *omap
	p       int
	reverse bool
	order   []int // fixed visiting order when reverse
}

func (it *omapIter) next() tuple {
	if it.m == nil {
		return []value{false, nil, nil}
	}
	if it.order != nil {
		for it.p < len(it.order) {
			e := it.m.entries[it.order[it.p]]
			it.p++
			if e.live {
				return []value{true, e.key, e.val}
			}
		}
		return []value{false, nil, nil}
	}
	for it.p < len(it.m.entries) {
		e := it.m.entries[it.p]
		it.p++
		if e.live {
			return []value{true, e.key, e.val}
		}
	}
	return []value{false, nil, nil}
}

func (i *interpreter) mapIter(m *omap) iter {
	it := &omapIter{m: m}
	if m != nil && m.n >= 2 && i.path != nil && i.path.forkMaps {
		// unspecified iteration order: explore forward and reverse; one
		// direction per path (chosen at the first map range), which is enough to
		// expose dependence on the order without a fork at every loop
		if i.path.mapDir == 0 {
			i.path.mapDir = 1 + i.choice(2)
		}
		if i.path.mapDir == 2 {
			for p := len(m.entries) - 1; p >= 0; p-- {
				it.order = append(it.order, p)
			}
		}
	}
	return it
}
