// Symbolic terms: hash-consed DAG over Bool, BitVec(n), Float64, Float32,
// with local simplification and SMT-LIB2 printing.
//
// Part of symgo (/verif): written for this verification framework.

package interp

import (
	"fmt"
	"math"
	"math/big"
	"strconv"
	"strings"
)

type sortKind uint8

const (
	sBool sortKind = iota
	sBV
	sF64
	sF32
)

type Sort struct {
	k sortKind
	w uint16 // bit width for sBV
}

func (s Sort) String() string {
	switch s.k {
	case sBool:
		return "Bool"
	case sBV:
		return fmt.Sprintf("(_ BitVec %d)", s.w)
	case sF64:
		return "(_ FloatingPoint 11 53)"
	case sF32:
		return "(_ FloatingPoint 8 24)"
	}
	return "?"
}

var (
	sortBool = Sort{k: sBool}
	sortF64  = Sort{k: sF64}
	sortF32  = Sort{k: sF32}
)

func bvSort(w int) Sort { return Sort{k: sBV, w: uint16(w)} }

type opKind uint8

const (
	opVar opKind = iota
	opConstBool
	opConstBV
	opConstFP // bits in val
	opNot
	opAnd
	opOr
	opIte
	opEq // any sort (fp: bitwise identity is NOT used; see opFPEq) - for BV/Bool
	// bit-vectors
	opBVAdd
	opBVSub
	opBVMul
	opBVUDiv
	opBVSDiv
	opBVURem
	opBVSRem
	opBVAnd
	opBVOr
	opBVXor
	opBVNot
	opBVNeg
	opBVShl
	opBVLShr
	opBVAShr
	opBVUlt
	opBVUle
	opBVSlt
	opBVSle
	opExtract // aux = hi<<16|lo
	opZeroExt // aux = extra bits
	opSignExt // aux = extra bits
	opConcat
	// floating point
	opFPAdd
	opFPSub
	opFPMul
	opFPDiv
	opFPNeg
	opFPAbs
	opFPEq // IEEE ==
	opFPLt
	opFPLe
	opFPIsNaN
	opFPIsInf
	opFPIsNeg  // fp.isNegative (sign bit set and not NaN)
	opFPRTI    // roundToIntegral, aux = rounding mode
	opFPToSBV  // aux = width ; RTZ ; (unspecified for out of range: callers guard)
	opFPToUBV  // aux = width ; RTZ
	opSBVToFP  // result sort in term
	opUBVToFP  // result sort in term
	opFPToFP   // convert between F32/F64 (RNE)
	opFPFromBV // reinterpret IEEE bits
	opFPSqrt
)

const (
	rmRNE = iota
	rmRTN
	rmRTP
	rmRTZ
	rmRNA
)

var rmNames = []string{"RNE", "RTN", "RTP", "RTZ", "RNA"}

type Term struct {
	op   opKind
	sort Sort
	args []*Term
	val  uint64 // constant bits (BV up to 64, FP bits, bool 0/1)
	aux  uint32
	name string // variables
	id   int
	vars []*Term // variables occurring in the term (nil + manyVars when more than maxTermVars)
	many bool
	fp   bool // some sub-term has a floating-point sort
}

const maxTermVars = 3

// termTable hash-conses terms; one per worker.
type termTable struct {
	m     map[string]*Term
	next  int
	tt    *Term
	ff    *Term
	nvars int
}

func newTermTable() *termTable {
	tb := &termTable{m: make(map[string]*Term)}
	tb.tt = tb.mk(&Term{op: opConstBool, sort: sortBool, val: 1})
	tb.ff = tb.mk(&Term{op: opConstBool, sort: sortBool, val: 0})
	return tb
}

func (tb *termTable) key(t *Term) string {
	var sb strings.Builder
	sb.WriteByte(byte(t.op))
	sb.WriteByte(byte(t.sort.k))
	sb.WriteString(strconv.Itoa(int(t.sort.w)))
	sb.WriteByte('|')
	sb.WriteString(strconv.FormatUint(t.val, 16))
	sb.WriteByte('|')
	sb.WriteString(strconv.FormatUint(uint64(t.aux), 16))
	sb.WriteByte('|')
	sb.WriteString(t.name)
	for _, a := range t.args {
		sb.WriteByte(',')
		sb.WriteString(strconv.Itoa(a.id))
	}
	return sb.String()
}

func (tb *termTable) mk(t *Term) *Term {
	k := tb.key(t)
	if old, ok := tb.m[k]; ok {
		return old
	}
	t.id = tb.next
	tb.next++
	tb.m[k] = t
	if t.sort.k == sF64 || t.sort.k == sF32 {
		t.fp = true
	}
	for _, a := range t.args {
		if a.fp {
			t.fp = true
		}
	}
	// variable set
	if t.op == opVar {
		t.vars = []*Term{t}
	} else {
		for _, a := range t.args {
			if a.many {
				t.many = true
				break
			}
			for _, v := range a.vars {
				found := false
				for _, w := range t.vars {
					if w == v {
						found = true
						break
					}
				}
				if !found {
					t.vars = append(t.vars, v)
				}
			}
			if len(t.vars) > maxTermVars {
				t.many = true
				break
			}
		}
		if t.many {
			t.vars = nil
		}
	}
	return t
}

func (t *Term) isConst() bool {
	return t.op == opConstBool || t.op == opConstBV || t.op == opConstFP
}

func (t *Term) isTrue() bool  { return t.op == opConstBool && t.val == 1 }
func (t *Term) isFalse() bool { return t.op == opConstBool && t.val == 0 }

func mask(w int) uint64 {
	if w >= 64 {
		return ^uint64(0)
	}
	return (uint64(1) << uint(w)) - 1
}

func signExt(v uint64, w int) int64 {
	if w >= 64 {
		return int64(v)
	}
	sh := uint(64 - w)
	return int64(v<<sh) >> sh
}

// ---- constructors ----

func (tb *termTable) Bool(b bool) *Term {
	if b {
		return tb.tt
	}
	return tb.ff
}

func (tb *termTable) BV(w int, v uint64) *Term {
	return tb.mk(&Term{op: opConstBV, sort: bvSort(w), val: v & mask(w)})
}

func (tb *termTable) F64(f float64) *Term {
	return tb.mk(&Term{op: opConstFP, sort: sortF64, val: math.Float64bits(f)})
}

func (tb *termTable) F32(f float32) *Term {
	return tb.mk(&Term{op: opConstFP, sort: sortF32, val: uint64(math.Float32bits(f))})
}

func (tb *termTable) Var(name string, s Sort) *Term {
	return tb.mk(&Term{op: opVar, sort: s, name: name})
}

func (tb *termTable) Not(a *Term) *Term {
	if a.op == opConstBool {
		return tb.Bool(a.val == 0)
	}
	if a.op == opNot {
		return a.args[0]
	}
	return tb.mk(&Term{op: opNot, sort: sortBool, args: []*Term{a}})
}

func (tb *termTable) And(a, b *Term) *Term {
	if a.isFalse() || b.isFalse() {
		return tb.ff
	}
	if a.isTrue() {
		return b
	}
	if b.isTrue() {
		return a
	}
	if a == b {
		return a
	}
	if (a.op == opNot && a.args[0] == b) || (b.op == opNot && b.args[0] == a) {
		return tb.ff
	}
	if a.id > b.id {
		a, b = b, a
	}
	return tb.mk(&Term{op: opAnd, sort: sortBool, args: []*Term{a, b}})
}

func (tb *termTable) Or(a, b *Term) *Term {
	if a.isTrue() || b.isTrue() {
		return tb.tt
	}
	if a.isFalse() {
		return b
	}
	if b.isFalse() {
		return a
	}
	if a == b {
		return a
	}
	if (a.op == opNot && a.args[0] == b) || (b.op == opNot && b.args[0] == a) {
		return tb.tt
	}
	if a.id > b.id {
		a, b = b, a
	}
	return tb.mk(&Term{op: opOr, sort: sortBool, args: []*Term{a, b}})
}

func (tb *termTable) Ite(c, a, b *Term) *Term {
	if c.isTrue() {
		return a
	}
	if c.isFalse() {
		return b
	}
	if a == b {
		return a
	}
	if a.sort != b.sort {
		panic(fmt.Sprintf("ite sort mismatch %v %v", a.sort, b.sort))
	}
	if a.sort.k == sBool {
		if a.isTrue() && b.isFalse() {
			return c
		}
		if a.isFalse() && b.isTrue() {
			return tb.Not(c)
		}
	}
	return tb.mk(&Term{op: opIte, sort: a.sort, args: []*Term{c, a, b}})
}

// Eq is structural equality on Bool and BV sorts. For FP sorts it is SMT "="
// (identity of the datum: NaN = NaN, +0 != -0), used only by the harness-side
// SameNumber; Go's == on floats is FPEq.
func (tb *termTable) Eq(a, b *Term) *Term {
	if a.sort != b.sort {
		panic(fmt.Sprintf("eq sort mismatch %v %v", a.sort, b.sort))
	}
	if a == b {
		return tb.tt
	}
	if a.isConst() && b.isConst() {
		if a.sort.k == sF64 || a.sort.k == sF32 {
			// identity on data: all NaNs are one datum
			an, bn := fpIsNaNBits(a), fpIsNaNBits(b)
			if an || bn {
				return tb.Bool(an && bn)
			}
		}
		return tb.Bool(a.val == b.val)
	}
	if a.sort.k == sBool {
		if a.isTrue() {
			return b
		}
		if b.isTrue() {
			return a
		}
		if a.isFalse() {
			return tb.Not(b)
		}
		if b.isFalse() {
			return tb.Not(a)
		}
	}
	// ite(c, k1, k2) == k  with constants
	if a.op == opIte && b.isConst() && a.args[1].isConst() && a.args[2].isConst() {
		return tb.Ite(a.args[0], tb.Eq(a.args[1], b), tb.Eq(a.args[2], b))
	}
	if b.op == opIte && a.isConst() && b.args[1].isConst() && b.args[2].isConst() {
		return tb.Ite(b.args[0], tb.Eq(b.args[1], a), tb.Eq(b.args[2], a))
	}
	if a.id > b.id {
		a, b = b, a
	}
	return tb.mk(&Term{op: opEq, sort: sortBool, args: []*Term{a, b}})
}

func fpIsNaNBits(t *Term) bool {
	if t.sort.k == sF64 {
		f := math.Float64frombits(t.val)
		return f != f
	}
	f := math.Float32frombits(uint32(t.val))
	return f != f
}

func (tb *termTable) bvBin(op opKind, a, b *Term) *Term {
	if a.sort != b.sort {
		panic(fmt.Sprintf("bv op %d sort mismatch %v %v", op, a.sort, b.sort))
	}
	w := int(a.sort.w)
	if a.op == opConstBV && b.op == opConstBV {
		x, y := a.val, b.val
		var r uint64
		ok := true
		switch op {
		case opBVAdd:
			r = x + y
		case opBVSub:
			r = x - y
		case opBVMul:
			r = x * y
		case opBVAnd:
			r = x & y
		case opBVOr:
			r = x | y
		case opBVXor:
			r = x ^ y
		case opBVUDiv:
			if y == 0 {
				r = mask(w)
			} else {
				r = x / y
			}
		case opBVURem:
			if y == 0 {
				r = x
			} else {
				r = x % y
			}
		case opBVSDiv:
			if y == 0 {
				ok = false
			} else {
				sx, sy := signExt(x, w), signExt(y, w)
				if sy == -1 {
					r = uint64(-sx)
				} else {
					r = uint64(sx / sy)
				}
			}
		case opBVSRem:
			if y == 0 {
				ok = false
			} else {
				sx, sy := signExt(x, w), signExt(y, w)
				if sy == -1 {
					r = 0
				} else {
					r = uint64(sx % sy)
				}
			}
		case opBVShl:
			if y >= uint64(w) {
				r = 0
			} else {
				r = x << y
			}
		case opBVLShr:
			if y >= uint64(w) {
				r = 0
			} else {
				r = x >> y
			}
		case opBVAShr:
			sx := signExt(x, w)
			if y >= uint64(w) {
				if sx < 0 {
					r = mask(w)
				} else {
					r = 0
				}
			} else {
				r = uint64(sx >> y)
			}
		default:
			ok = false
		}
		if ok {
			return tb.BV(w, r)
		}
	}
	// identities
	switch op {
	case opBVAdd, opBVOr, opBVXor:
		if a.op == opConstBV && a.val == 0 {
			return b
		}
		if b.op == opConstBV && b.val == 0 {
			return a
		}
	case opBVSub, opBVShl, opBVLShr, opBVAShr:
		if b.op == opConstBV && b.val == 0 {
			return a
		}
	case opBVAnd:
		if (a.op == opConstBV && a.val == 0) || (b.op == opConstBV && b.val == 0) {
			return tb.BV(w, 0)
		}
		if a.op == opConstBV && a.val == mask(w) {
			return b
		}
		if b.op == opConstBV && b.val == mask(w) {
			return a
		}
	case opBVMul:
		if a.op == opConstBV && a.val == 1 {
			return b
		}
		if b.op == opConstBV && b.val == 1 {
			return a
		}
	}
	return tb.mk(&Term{op: op, sort: a.sort, args: []*Term{a, b}})
}

func (tb *termTable) bvCmp(op opKind, a, b *Term) *Term {
	if a.sort != b.sort {
		panic(fmt.Sprintf("bv cmp sort mismatch %v %v", a.sort, b.sort))
	}
	w := int(a.sort.w)
	if a.op == opConstBV && b.op == opConstBV {
		switch op {
		case opBVUlt:
			return tb.Bool(a.val < b.val)
		case opBVUle:
			return tb.Bool(a.val <= b.val)
		case opBVSlt:
			return tb.Bool(signExt(a.val, w) < signExt(b.val, w))
		case opBVSle:
			return tb.Bool(signExt(a.val, w) <= signExt(b.val, w))
		}
	}
	if a == b {
		return tb.Bool(op == opBVUle || op == opBVSle)
	}
	return tb.mk(&Term{op: op, sort: sortBool, args: []*Term{a, b}})
}

func (tb *termTable) BVNot(a *Term) *Term {
	if a.op == opConstBV {
		return tb.BV(int(a.sort.w), ^a.val)
	}
	return tb.mk(&Term{op: opBVNot, sort: a.sort, args: []*Term{a}})
}

func (tb *termTable) BVNeg(a *Term) *Term {
	if a.op == opConstBV {
		return tb.BV(int(a.sort.w), -a.val)
	}
	return tb.mk(&Term{op: opBVNeg, sort: a.sort, args: []*Term{a}})
}

func (tb *termTable) Extract(hi, lo int, a *Term) *Term {
	w := hi - lo + 1
	if lo == 0 && w == int(a.sort.w) {
		return a
	}
	if a.op == opConstBV {
		return tb.BV(w, a.val>>uint(lo))
	}
	// extract of zero/sign extension that stays within the original
	if (a.op == opZeroExt || a.op == opSignExt) && hi < int(a.args[0].sort.w) {
		return tb.Extract(hi, lo, a.args[0])
	}
	return tb.mk(&Term{op: opExtract, sort: bvSort(w), args: []*Term{a}, aux: uint32(hi)<<16 | uint32(lo)})
}

func (tb *termTable) ZeroExt(extra int, a *Term) *Term {
	if extra == 0 {
		return a
	}
	if a.op == opConstBV {
		return tb.BV(int(a.sort.w)+extra, a.val)
	}
	return tb.mk(&Term{op: opZeroExt, sort: bvSort(int(a.sort.w) + extra), args: []*Term{a}, aux: uint32(extra)})
}

func (tb *termTable) SignExt(extra int, a *Term) *Term {
	if extra == 0 {
		return a
	}
	if a.op == opConstBV {
		return tb.BV(int(a.sort.w)+extra, uint64(signExt(a.val, int(a.sort.w))))
	}
	return tb.mk(&Term{op: opSignExt, sort: bvSort(int(a.sort.w) + extra), args: []*Term{a}, aux: uint32(extra)})
}

func (tb *termTable) Concat(hi, lo *Term) *Term {
	w := int(hi.sort.w) + int(lo.sort.w)
	if hi.op == opConstBV && lo.op == opConstBV && w <= 64 {
		return tb.BV(w, hi.val<<uint(lo.sort.w)|lo.val)
	}
	return tb.mk(&Term{op: opConcat, sort: bvSort(w), args: []*Term{hi, lo}})
}

// ---- floating point ----

func fpConstVal(t *Term) (float64, bool) {
	if t.op != opConstFP {
		return 0, false
	}
	if t.sort.k == sF64 {
		return math.Float64frombits(t.val), true
	}
	return float64(math.Float32frombits(uint32(t.val))), true
}

func (tb *termTable) fpConst(s Sort, f float64) *Term {
	if s.k == sF64 {
		return tb.F64(f)
	}
	return tb.F32(float32(f))
}

func (tb *termTable) fpBin(op opKind, a, b *Term) *Term {
	if a.sort != b.sort {
		panic("fp op sort mismatch")
	}
	if x, ok := fpConstVal(a); ok {
		if y, ok := fpConstVal(b); ok {
			if a.sort.k == sF64 {
				switch op {
				case opFPAdd:
					return tb.F64(x + y)
				case opFPSub:
					return tb.F64(x - y)
				case opFPMul:
					return tb.F64(x * y)
				case opFPDiv:
					return tb.F64(x / y)
				}
			} else {
				fx, fy := float32(x), float32(y)
				switch op {
				case opFPAdd:
					return tb.F32(fx + fy)
				case opFPSub:
					return tb.F32(fx - fy)
				case opFPMul:
					return tb.F32(fx * fy)
				case opFPDiv:
					return tb.F32(fx / fy)
				}
			}
		}
	}
	return tb.mk(&Term{op: op, sort: a.sort, args: []*Term{a, b}})
}

func (tb *termTable) fpCmp(op opKind, a, b *Term) *Term {
	if a.sort != b.sort {
		panic("fp cmp sort mismatch")
	}
	if x, ok := fpConstVal(a); ok {
		if y, ok := fpConstVal(b); ok {
			switch op {
			case opFPEq:
				return tb.Bool(x == y)
			case opFPLt:
				return tb.Bool(x < y)
			case opFPLe:
				return tb.Bool(x <= y)
			}
		}
	}
	return tb.mk(&Term{op: op, sort: sortBool, args: []*Term{a, b}})
}

func (tb *termTable) fpUn(op opKind, a *Term, aux uint32) *Term {
	if x, ok := fpConstVal(a); ok {
		switch op {
		case opFPNeg:
			return tb.fpConst(a.sort, -x)
		case opFPAbs:
			return tb.fpConst(a.sort, math.Abs(x))
		case opFPIsNaN:
			return tb.Bool(x != x)
		case opFPIsInf:
			return tb.Bool(math.IsInf(x, 0))
		case opFPIsNeg:
			return tb.Bool(x == x && math.Signbit(x))
		case opFPRTI:
			switch aux {
			case rmRTN:
				return tb.fpConst(a.sort, math.Floor(x))
			case rmRTP:
				return tb.fpConst(a.sort, math.Ceil(x))
			case rmRTZ:
				return tb.fpConst(a.sort, math.Trunc(x))
			case rmRNE:
				return tb.fpConst(a.sort, math.RoundToEven(x))
			case rmRNA:
				return tb.fpConst(a.sort, math.Round(x))
			}
		}
	}
	s := a.sort
	switch op {
	case opFPIsNaN, opFPIsInf, opFPIsNeg:
		s = sortBool
	}
	return tb.mk(&Term{op: op, sort: s, args: []*Term{a}, aux: aux})
}

func (tb *termTable) FPToSBV(w int, a *Term) *Term {
	return tb.mk(&Term{op: opFPToSBV, sort: bvSort(w), args: []*Term{a}, aux: uint32(w)})
}

func (tb *termTable) FPToUBV(w int, a *Term) *Term {
	return tb.mk(&Term{op: opFPToUBV, sort: bvSort(w), args: []*Term{a}, aux: uint32(w)})
}

func (tb *termTable) SBVToFP(s Sort, a *Term) *Term {
	if a.op == opConstBV {
		return tb.fpConst(s, float64(signExt(a.val, int(a.sort.w))))
	}
	return tb.mk(&Term{op: opSBVToFP, sort: s, args: []*Term{a}})
}

func (tb *termTable) UBVToFP(s Sort, a *Term) *Term {
	if a.op == opConstBV {
		return tb.fpConst(s, float64(a.val))
	}
	return tb.mk(&Term{op: opUBVToFP, sort: s, args: []*Term{a}})
}

func (tb *termTable) FPToFP(s Sort, a *Term) *Term {
	if a.sort == s {
		return a
	}
	if x, ok := fpConstVal(a); ok {
		return tb.fpConst(s, x)
	}
	return tb.mk(&Term{op: opFPToFP, sort: s, args: []*Term{a}})
}

func (tb *termTable) FPFromBV(s Sort, a *Term) *Term {
	if a.op == opConstBV {
		return tb.mk(&Term{op: opConstFP, sort: s, val: a.val})
	}
	return tb.mk(&Term{op: opFPFromBV, sort: s, args: []*Term{a}})
}

// ---- printing ----

func bvLit(w int, v uint64) string {
	v &= mask(w)
	if w%4 == 0 {
		return fmt.Sprintf("#x%0*x", w/4, v)
	}
	return fmt.Sprintf("#b%0*b", w, v)
}

func fpLit(s Sort, bits uint64) string {
	if s.k == sF64 {
		sign := bits >> 63
		exp := (bits >> 52) & 0x7ff
		man := bits & ((1 << 52) - 1)
		if exp == 0x7ff && man != 0 {
			return "(_ NaN 11 53)"
		}
		return fmt.Sprintf("(fp #b%b #b%011b #x%013x)", sign, exp, man)
	}
	sign := (bits >> 31) & 1
	exp := (bits >> 23) & 0xff
	man := bits & ((1 << 23) - 1)
	if exp == 0xff && man != 0 {
		return "(_ NaN 8 24)"
	}
	return fmt.Sprintf("(fp #b%b #b%08b #b%023b)", sign, exp, man)
}

var opNames = map[opKind]string{
	opNot: "not", opAnd: "and", opOr: "or", opIte: "ite", opEq: "=",
	opBVAdd: "bvadd", opBVSub: "bvsub", opBVMul: "bvmul", opBVUDiv: "bvudiv", opBVSDiv: "bvsdiv",
	opBVURem: "bvurem", opBVSRem: "bvsrem", opBVAnd: "bvand", opBVOr: "bvor", opBVXor: "bvxor",
	opBVNot: "bvnot", opBVNeg: "bvneg", opBVShl: "bvshl", opBVLShr: "bvlshr", opBVAShr: "bvashr",
	opBVUlt: "bvult", opBVUle: "bvule", opBVSlt: "bvslt", opBVSle: "bvsle", opConcat: "concat",
	opFPNeg: "fp.neg", opFPAbs: "fp.abs", opFPEq: "fp.eq", opFPLt: "fp.lt", opFPLe: "fp.leq",
	opFPIsNaN: "fp.isNaN", opFPIsInf: "fp.isInfinite", opFPIsNeg: "fp.isNegative",
}

// head renders the operator application of t over already-named children.
func (t *Term) render(argName func(*Term) string) string {
	switch t.op {
	case opVar:
		return t.name
	case opConstBool:
		if t.val == 1 {
			return "true"
		}
		return "false"
	case opConstBV:
		return bvLit(int(t.sort.w), t.val)
	case opConstFP:
		return fpLit(t.sort, t.val)
	}
	var sb strings.Builder
	sb.WriteByte('(')
	switch t.op {
	case opExtract:
		fmt.Fprintf(&sb, "(_ extract %d %d)", t.aux>>16, t.aux&0xffff)
	case opZeroExt:
		fmt.Fprintf(&sb, "(_ zero_extend %d)", t.aux)
	case opSignExt:
		fmt.Fprintf(&sb, "(_ sign_extend %d)", t.aux)
	case opFPAdd:
		sb.WriteString("fp.add RNE")
	case opFPSub:
		sb.WriteString("fp.sub RNE")
	case opFPMul:
		sb.WriteString("fp.mul RNE")
	case opFPDiv:
		sb.WriteString("fp.div RNE")
	case opFPSqrt:
		sb.WriteString("fp.sqrt RNE")
	case opFPRTI:
		sb.WriteString("fp.roundToIntegral " + rmNames[t.aux])
	case opFPToSBV:
		fmt.Fprintf(&sb, "(_ fp.to_sbv %d) RTZ", t.aux)
	case opFPToUBV:
		fmt.Fprintf(&sb, "(_ fp.to_ubv %d) RTZ", t.aux)
	case opSBVToFP:
		if t.sort.k == sF64 {
			sb.WriteString("(_ to_fp 11 53) RNE")
		} else {
			sb.WriteString("(_ to_fp 8 24) RNE")
		}
	case opUBVToFP:
		if t.sort.k == sF64 {
			sb.WriteString("(_ to_fp_unsigned 11 53) RNE")
		} else {
			sb.WriteString("(_ to_fp_unsigned 8 24) RNE")
		}
	case opFPToFP:
		if t.sort.k == sF64 {
			sb.WriteString("(_ to_fp 11 53) RNE")
		} else {
			sb.WriteString("(_ to_fp 8 24) RNE")
		}
	case opFPFromBV:
		if t.sort.k == sF64 {
			sb.WriteString("(_ to_fp 11 53)")
		} else {
			sb.WriteString("(_ to_fp 8 24)")
		}
	default:
		n, ok := opNames[t.op]
		if !ok {
			panic(fmt.Sprintf("no smt name for op %d", t.op))
		}
		sb.WriteString(n)
	}
	for _, a := range t.args {
		sb.WriteByte(' ')
		sb.WriteString(argName(a))
	}
	sb.WriteByte(')')
	return sb.String()
}

// evalConst evaluates t under a full assignment of its variables (used to
// double check solver models and to concretise nd values for replay).
func evalTerm(t *Term, env map[string]uint64, memo map[*Term]uint64) uint64 {
	if v, ok := memo[t]; ok {
		return v
	}
	var r uint64
	a := func(i int) uint64 { return evalTerm(t.args[i], env, memo) }
	w := int(t.sort.w)
	b2u := func(b bool) uint64 {
		if b {
			return 1
		}
		return 0
	}
	fp := func(i int) float64 {
		v := a(i)
		if t.args[i].sort.k == sF64 {
			return math.Float64frombits(v)
		}
		return float64(math.Float32frombits(uint32(v)))
	}
	fpres := func(f float64) uint64 {
		if t.sort.k == sF64 {
			return math.Float64bits(f)
		}
		return uint64(math.Float32bits(float32(f)))
	}
	fpbin := func(f func(x, y float64) float64, f32 func(x, y float32) float32) uint64 {
		if t.sort.k == sF64 {
			return math.Float64bits(f(fp(0), fp(1)))
		}
		return uint64(math.Float32bits(f32(float32(fp(0)), float32(fp(1)))))
	}
	switch t.op {
	case opVar:
		r = env[t.name]
	case opConstBool, opConstBV, opConstFP:
		r = t.val
	case opNot:
		r = 1 - a(0)
	case opAnd:
		r = a(0) & a(1)
	case opOr:
		r = a(0) | a(1)
	case opIte:
		if a(0) == 1 {
			r = a(1)
		} else {
			r = a(2)
		}
	case opEq:
		if t.args[0].sort.k == sF64 || t.args[0].sort.k == sF32 {
			x, y := fp(0), fp(1)
			if x != x || y != y {
				r = b2u(x != x && y != y)
			} else {
				r = b2u(a(0) == a(1))
			}
		} else {
			r = b2u(a(0) == a(1))
		}
	case opBVAdd, opBVSub, opBVMul, opBVUDiv, opBVSDiv, opBVURem, opBVSRem, opBVAnd, opBVOr, opBVXor, opBVShl, opBVLShr, opBVAShr:
		tb := newTermTable()
		c := tb.bvBin(t.op, tb.BV(w, a(0)), tb.BV(w, a(1)))
		if c.op != opConstBV {
			// division by zero (SMT-LIB total semantics)
			x := a(0)
			switch t.op {
			case opBVSDiv:
				if signExt(x, w) < 0 {
					r = 1
				} else {
					r = mask(w)
				}
			case opBVSRem:
				r = x
			}
		} else {
			r = c.val
		}
	case opBVNot:
		r = ^a(0) & mask(w)
	case opBVNeg:
		r = -a(0) & mask(w)
	case opBVUlt:
		r = b2u(a(0) < a(1))
	case opBVUle:
		r = b2u(a(0) <= a(1))
	case opBVSlt:
		ww := int(t.args[0].sort.w)
		r = b2u(signExt(a(0), ww) < signExt(a(1), ww))
	case opBVSle:
		ww := int(t.args[0].sort.w)
		r = b2u(signExt(a(0), ww) <= signExt(a(1), ww))
	case opExtract:
		lo := t.aux & 0xffff
		r = (a(0) >> lo) & mask(w)
	case opZeroExt:
		r = a(0)
	case opSignExt:
		r = uint64(signExt(a(0), int(t.args[0].sort.w))) & mask(w)
	case opConcat:
		r = (a(0)<<uint(t.args[1].sort.w) | a(1)) & mask(w)
	case opFPAdd:
		r = fpbin(func(x, y float64) float64 { return x + y }, func(x, y float32) float32 { return x + y })
	case opFPSub:
		r = fpbin(func(x, y float64) float64 { return x - y }, func(x, y float32) float32 { return x - y })
	case opFPMul:
		r = fpbin(func(x, y float64) float64 { return x * y }, func(x, y float32) float32 { return x * y })
	case opFPDiv:
		r = fpbin(func(x, y float64) float64 { return x / y }, func(x, y float32) float32 { return x / y })
	case opFPNeg:
		r = fpres(-fp(0))
	case opFPAbs:
		r = fpres(math.Abs(fp(0)))
	case opFPSqrt:
		r = fpres(math.Sqrt(fp(0)))
	case opFPEq:
		r = b2u(fp(0) == fp(1))
	case opFPLt:
		r = b2u(fp(0) < fp(1))
	case opFPLe:
		r = b2u(fp(0) <= fp(1))
	case opFPIsNaN:
		x := fp(0)
		r = b2u(x != x)
	case opFPIsInf:
		r = b2u(math.IsInf(fp(0), 0))
	case opFPIsNeg:
		x := fp(0)
		r = b2u(x == x && math.Signbit(x))
	case opFPRTI:
		x := fp(0)
		switch t.aux {
		case rmRTN:
			r = fpres(math.Floor(x))
		case rmRTP:
			r = fpres(math.Ceil(x))
		case rmRTZ:
			r = fpres(math.Trunc(x))
		case rmRNE:
			r = fpres(math.RoundToEven(x))
		case rmRNA:
			r = fpres(math.Round(x))
		}
	case opFPToSBV:
		x := math.Trunc(fp(0))
		bf := new(big.Float).SetFloat64(0)
		if x == x && !math.IsInf(x, 0) {
			bf.SetFloat64(x)
		}
		bi, _ := bf.Int(nil)
		r = new(big.Int).And(bi, new(big.Int).SetUint64(mask(w))).Uint64()
		if bi.Sign() < 0 {
			m := new(big.Int).Lsh(big.NewInt(1), uint(w))
			bi.Mod(bi, m)
			r = bi.Uint64()
		}
	case opFPToUBV:
		x := math.Trunc(fp(0))
		bf := new(big.Float).SetFloat64(0)
		if x == x && !math.IsInf(x, 0) && x >= 0 {
			bf.SetFloat64(x)
		}
		bi, _ := bf.Int(nil)
		m := new(big.Int).Lsh(big.NewInt(1), uint(w))
		bi.Mod(bi, m)
		r = bi.Uint64()
	case opSBVToFP:
		r = fpres(float64(signExt(a(0), int(t.args[0].sort.w))))
	case opUBVToFP:
		r = fpres(float64(a(0)))
	case opFPToFP:
		r = fpres(fp(0))
	case opFPFromBV:
		r = a(0)
	default:
		panic(fmt.Sprintf("evalTerm: op %d", t.op))
	}
	memo[t] = r
	return r
}
