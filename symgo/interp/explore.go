// Path exploration: fork by re-execution from a checkpoint, decision
// prefixes, undo log, per-path bookkeeping.
//
// Part of symgo (/verif).

package interp

import (
	"fmt"
	"go/types"
	"sort"
	"strings"
	"sync"
	"time"
)

// abortPath ends the current path (not a target-program panic).
type abortPath struct {
	kind   string // "infeasible", "unsupported", "bound", "known", "stop"
	reason string
}

// undo log -------------------------------------------------------------------

type undoRec struct {
	addr *value
	old  value
	fn   func() // non-nil for map operations etc.
}

func (i *interpreter) logStore(addr *value) {
	if i.logging {
		i.undo = append(i.undo, undoRec{addr: addr, old: *addr})
	}
}

func (i *interpreter) logFn(fn func()) {
	if i.logging {
		i.undo = append(i.undo, undoRec{fn: fn})
	}
}

func (i *interpreter) rollback(to int) {
	for k := len(i.undo) - 1; k >= to; k-- {
		r := i.undo[k]
		if r.fn != nil {
			r.fn()
		} else {
			*r.addr = r.old
		}
		i.undo[k] = undoRec{}
	}
	i.undo = i.undo[:to]
}

// path state -----------------------------------------------------------------

type ndRec struct {
	Kind string `json:"kind"` // f64, byte, bool, int, choice
	term *Term
	Bits uint64 `json:"bits"`
	conc bool   // Bits is already final (choices)
}

type Violation struct {
	Harness   string   `json:"harness"`
	AssertID  string   `json:"assert_id"`
	Kind      string   `json:"kind"` // assert | panic | unsupported-witness
	Message   string   `json:"message,omitempty"`
	Vector    []ndRec  `json:"vector"`
	Decisions []int32  `json:"decisions"`
	Notes     []string `json:"notes,omitempty"`
}

type pathState struct {
	decisions []int32
	prefixLen int
	pos       int
	pc        []*Term
	pcSet     map[*Term]bool
	nd        []ndRec
	steps     int
	depth     int
	maxDepth  int
	notes     []string
	reached   map[string]bool
	protects  []*protectSet
	forkMaps  bool
	mapDir    int
	noPanic   int // >0: inside a no-panic scope

	// value-set fast path: domains of small variables constrained only by
	// single-variable conjuncts
	dom          map[*Term]*[4]uint64
	entangled    map[*Term]bool
	entangledAll bool
	pcFP         bool
}

// Stats are aggregated over all workers.
type Stats struct {
	Paths                  int            `json:"paths"`
	PathsByEnd             map[string]int `json:"paths_by_end"`
	Decisions              int            `json:"symbolic_branch_decisions"`
	FastDecisions          int            `json:"value_set_decisions"`
	DischargedFast         int            `json:"discharged_value_set"`
	CheapFPMisses          int            `json:"fp_queries_escalated_to_one_shot_solvers"`
	SkippedAfterViolations int            `json:"obligations_skipped_after_20_violations_of_same_assert"`
	Forks                  int            `json:"forks"`
	Obligations            int            `json:"obligations"`
	DischargedConc         int            `json:"discharged_concrete_or_simplifier"`
	DischargedUnsat        int            `json:"discharged_unsat"`
	Violated               int            `json:"violated_sat"`
	Inconclusive           int            `json:"inconclusive"`
	SolverSat              int            `json:"solver_sat"`
	SolverUnsat            int            `json:"solver_unsat"`
	SolverUnknown          int            `json:"solver_unknown"`
	SolverWallS            float64        `json:"solver_wall_s"`
	SolverErrors           []string       `json:"solver_errors,omitempty"`
	Steps                  int64          `json:"ssa_instructions"`
	Reached                map[string]int `json:"reach_markers"`
	Unsupported            map[string]int `json:"unsupported_reasons,omitempty"`
	BoundExceeded          map[string]int `json:"bound_exceeded,omitempty"`
	Funcs                  map[string]int `json:"functions_encoded"`
	Models                 map[string]int `json:"models_used"`
	AssertIDs              map[string]int `json:"assert_ids"`
	KnownRegionPaths       int            `json:"paths_ended_in_known_region"`
	Samples                []Sample       `json:"samples"`
	MaxCallDepth           int            `json:"max_call_depth"`
}

type Sample struct {
	Decisions int      `json:"decisions"`
	End       string   `json:"end"`
	Vector    []string `json:"nd_values"`
	Notes     []string `json:"notes,omitempty"`
}

func newStats() *Stats {
	return &Stats{
		PathsByEnd: map[string]int{}, Reached: map[string]int{}, Unsupported: map[string]int{},
		BoundExceeded: map[string]int{}, Funcs: map[string]int{}, Models: map[string]int{}, AssertIDs: map[string]int{},
	}
}

func (s *Stats) merge(o *Stats) {
	s.Paths += o.Paths
	s.Decisions += o.Decisions
	s.FastDecisions += o.FastDecisions
	s.DischargedFast += o.DischargedFast
	s.SkippedAfterViolations += o.SkippedAfterViolations
	s.CheapFPMisses += o.CheapFPMisses
	s.Forks += o.Forks
	s.Obligations += o.Obligations
	s.DischargedConc += o.DischargedConc
	s.DischargedUnsat += o.DischargedUnsat
	s.Violated += o.Violated
	s.Inconclusive += o.Inconclusive
	s.SolverSat += o.SolverSat
	s.SolverUnsat += o.SolverUnsat
	s.SolverUnknown += o.SolverUnknown
	s.SolverWallS += o.SolverWallS
	s.Steps += o.Steps
	s.KnownRegionPaths += o.KnownRegionPaths
	if o.MaxCallDepth > s.MaxCallDepth {
		s.MaxCallDepth = o.MaxCallDepth
	}
	for k, v := range o.PathsByEnd {
		s.PathsByEnd[k] += v
	}
	for k, v := range o.Reached {
		s.Reached[k] += v
	}
	for k, v := range o.Unsupported {
		s.Unsupported[k] += v
	}
	for k, v := range o.BoundExceeded {
		s.BoundExceeded[k] += v
	}
	for k, v := range o.Funcs {
		s.Funcs[k] += v
	}
	for k, v := range o.Models {
		s.Models[k] += v
	}
	for k, v := range o.AssertIDs {
		s.AssertIDs[k] += v
	}
	for _, e := range o.SolverErrors {
		if len(s.SolverErrors) < 10 {
			s.SolverErrors = append(s.SolverErrors, e)
		}
	}
	for _, smp := range o.Samples {
		if len(s.Samples) < 12 {
			s.Samples = append(s.Samples, smp)
		}
	}
}

// Options of one exploration.
type Options struct {
	Workers        int
	SolverPath     string
	CVC5Path       string
	QueryTimeoutMs int // verdict queries
	FeasTimeoutMs  int // feasibility queries
	StepBudget     int // SSA instructions per path
	DepthBudget    int // call depth
	MaxPaths       int // safety valve; exceeding is reported
	Tier           int
	Seed           int64
	ActiveKnown    map[string]bool // known-finding ids whose regions are carved out
	Deadline       time.Time
	Transcript     string // optional path for solver transcript of worker 0
	MaxViolations  int    // per assert id, how many models to keep
	ForkMaps       bool
	WitnessPaths   int // number of passing paths for which a model is produced for native validation
}

// work queue -------------------------------------------------------------------

type workQueue struct {
	mu      sync.Mutex
	cond    *sync.Cond
	items   [][]int32
	idle    int
	workers int
	done    bool
	pushed  int
}

func newWorkQueue(workers int) *workQueue {
	q := &workQueue{workers: workers}
	q.cond = sync.NewCond(&q.mu)
	return q
}

func (q *workQueue) push(p []int32) {
	q.mu.Lock()
	q.items = append(q.items, p)
	q.pushed++
	q.mu.Unlock()
	q.cond.Signal()
}

func (q *workQueue) pop() ([]int32, bool) {
	q.mu.Lock()
	defer q.mu.Unlock()
	for {
		if q.done {
			return nil, false
		}
		if n := len(q.items); n > 0 {
			it := q.items[n-1]
			q.items = q.items[:n-1]
			return it, true
		}
		q.idle++
		if q.idle == q.workers {
			q.done = true
			q.cond.Broadcast()
			return nil, false
		}
		q.cond.Wait()
		q.idle--
	}
}

// hungry reports whether some worker is waiting for work and the shared queue
// is empty (then busy workers donate part of their local stacks).
func (q *workQueue) hungry() bool {
	q.mu.Lock()
	defer q.mu.Unlock()
	return q.idle > 0 && len(q.items) == 0 && !q.done
}

func (i *interpreter) pushWork(p []int32) {
	i.local = append(i.local, p)
}

func (q *workQueue) stop() {
	q.mu.Lock()
	q.done = true
	q.mu.Unlock()
	q.cond.Broadcast()
}

// decisions ---------------------------------------------------------------------

func (i *interpreter) nextRecorded() (int32, bool) {
	p := i.path
	if p.pos < p.prefixLen {
		d := p.decisions[p.pos]
		p.pos++
		return d, true
	}
	return 0, false
}

func (i *interpreter) record(d int32) {
	p := i.path
	p.decisions = append(p.decisions, d)
	p.pos++
}

func (i *interpreter) addPC(c *Term) {
	p := i.path
	if c.isTrue() || p.pcSet[c] {
		return
	}
	p.pc = append(p.pc, c)
	p.pcSet[c] = true
	if c.fp {
		p.pcFP = true
	}
	i.solver.push(c)
	// maintain the value-set domains
	if c.many {
		p.entangledAll = true
		return
	}
	if len(c.vars) == 1 && smallVar(c.vars[0]) {
		v := c.vars[0]
		set := i.satSet(c, v)
		d := p.dom[v]
		if d == nil {
			d = &[4]uint64{^uint64(0), ^uint64(0), ^uint64(0), ^uint64(0)}
			p.dom[v] = d
		}
		for k := range d {
			d[k] &= set[k]
		}
		return
	}
	for _, v := range c.vars {
		p.entangled[v] = true
	}
}

func smallVar(v *Term) bool {
	return v.sort.k == sBool || (v.sort.k == sBV && v.sort.w <= 8)
}

// satSet returns the set of values of the single small variable v for which
// the term c (Bool, mentioning only v) is true.
func (i *interpreter) satSet(c, v *Term) *[4]uint64 {
	if s, ok := i.fastCache[c]; ok {
		return s
	}
	n := 256
	if v.sort.k == sBool {
		n = 2
	} else if v.sort.w < 8 {
		n = 1 << v.sort.w
	}
	var set [4]uint64
	env := map[string]uint64{}
	for x := 0; x < n; x++ {
		env[v.name] = uint64(x)
		if evalTerm(c, env, map[*Term]uint64{}) == 1 {
			set[x>>6] |= 1 << uint(x&63)
		}
	}
	i.fastCache[c] = &set
	return &set
}

// fastDecide decides feasibility of c and ¬c from the value-set domain when c
// mentions one small variable that no multi-variable conjunct constrains.
func (i *interpreter) fastDecide(c *Term) (canT, canF, ok bool) {
	p := i.path
	if p.entangledAll || c.many || len(c.vars) != 1 {
		return false, false, false
	}
	v := c.vars[0]
	if !smallVar(v) || p.entangled[v] {
		return false, false, false
	}
	set := i.satSet(c, v)
	n := 256
	if v.sort.k == sBool {
		n = 2
	} else if v.sort.w < 8 {
		n = 1 << v.sort.w
	}
	d := p.dom[v]
	for x := 0; x < n; x++ {
		in := d == nil || d[x>>6]&(1<<uint(x&63)) != 0
		if !in {
			continue
		}
		if set[x>>6]&(1<<uint(x&63)) != 0 {
			canT = true
		} else {
			canF = true
		}
		if canT && canF {
			break
		}
	}
	return canT, canF, true
}

// checkSat decides pc ∧ c. Goals that involve floating point go to fresh
// one-shot solver processes (much faster than z3's incremental core on FP);
// everything else to the worker's incremental solver. With wantModel the
// model of the nd variables is returned for a sat answer.
func (i *interpreter) checkSat(c *Term, timeoutMs int, wantModel bool) (string, map[string]uint64) {
	p := i.path
	useStandalone := p.pcFP || (c != nil && c.fp)
	if useStandalone {
		// cheap attempt first: most floating-point feasibility questions (x == 0,
		// isNaN, comparisons with constants) are decided by the incremental
		// solver in milliseconds; only the hard ones go to fresh processes
		if r := i.solver.check(c, 250, wantModel); r == "sat" || r == "unsat" {
			if r == "sat" && wantModel {
				vals, err := i.solver.getValues(i.ndVars())
				i.solver.endCheck()
				if err == nil {
					return r, vals
				}
			} else {
				return r, nil
			}
		} else if r == "died" {
			i.solverDied()
		} else {
			// the cheap attempt timed out: not a verdict, the one-shot solvers decide
			i.solver.nUnknown--
			i.stats.CheapFPMisses++
		}
		var vars []*Term
		if wantModel {
			vars = i.ndVars()
		}
		r := i.solver.standalone(p.pc, c, vars, timeoutMs)
		return r.res, r.vals
	}
	r := i.solver.check(c, timeoutMs, wantModel)
	if r == "died" {
		i.solverDied()
		return "unknown", nil
	}
	if r == "sat" && wantModel {
		vals, err := i.solver.getValues(i.ndVars())
		i.solver.endCheck()
		if err != nil {
			return "unknown", nil
		}
		return r, vals
	}
	return r, nil
}

func (i *interpreter) vectorFrom(vals map[string]uint64) []ndRec {
	out := make([]ndRec, len(i.path.nd))
	memo := map[*Term]uint64{}
	for k, r := range i.path.nd {
		out[k] = ndRec{Kind: r.Kind, Bits: r.Bits}
		if r.term != nil {
			out[k].Bits = evalTerm(r.term, vals, memo)
		}
	}
	return out
}

// branch decides a boolean term on the current path, forking if both
// outcomes are feasible.
func (i *interpreter) branch(c *Term) bool {
	if c.op == opConstBool {
		return c.val == 1
	}
	p := i.path
	if p == nil {
		panic(abortPath{"unsupported", "symbolic branch outside of a path"})
	}
	if p.pcSet[c] {
		return true
	}
	if nc := i.tb.Not(c); p.pcSet[nc] {
		return false
	}
	if d, ok := i.nextRecorded(); ok {
		if d == 1 {
			i.addPC(c)
			return true
		}
		i.addPC(i.tb.Not(c))
		return false
	}
	if canT, canF, ok := i.fastDecide(c); ok && (canT || canF) {
		i.stats.FastDecisions++
		switch {
		case canT && canF:
			i.stats.Forks++
			alt := make([]int32, len(p.decisions)+1)
			copy(alt, p.decisions)
			alt[len(p.decisions)] = 0
			i.pushWork(alt)
			i.record(1)
			i.addPC(c)
			return true
		case canT:
			i.record(1)
			i.addPC(c)
			return true
		default:
			i.record(0)
			i.addPC(i.tb.Not(c))
			return false
		}
	}
	i.stats.Decisions++
	rt, _ := i.checkSat(c, i.opts.FeasTimeoutMs, false)
	if rt == "unsat" {
		i.record(0)
		i.addPC(i.tb.Not(c))
		return false
	}
	rf, _ := i.checkSat(i.tb.Not(c), i.opts.FeasTimeoutMs, false)
	if rf == "unsat" {
		i.record(1)
		i.addPC(c)
		return true
	}
	// both feasible (or unknown, which is kept): fork
	i.stats.Forks++
	alt := make([]int32, len(p.decisions)+1)
	copy(alt, p.decisions)
	alt[len(p.decisions)] = 0
	i.pushWork(alt)
	i.record(1)
	i.addPC(c)
	return true
}

func (i *interpreter) solverDied() {
	// restart and re-assert the path condition
	i.solver.restart()
	for _, c := range i.path.pc {
		i.solver.push(c)
	}
}

// assume adds c to the path; ends the path if that is infeasible.
func (i *interpreter) assume(c *Term, kind string) {
	if c.isTrue() {
		return
	}
	if c.isFalse() {
		panic(abortPath{kind, "assumption false"})
	}
	p := i.path
	if p.pcSet[c] {
		return
	}
	if d, ok := i.nextRecorded(); ok {
		if d == 0 {
			panic(abortPath{kind, "assumption infeasible"})
		}
		i.addPC(c)
		return
	}
	var r string
	if canT, _, ok := i.fastDecide(c); ok {
		i.stats.FastDecisions++
		if canT {
			r = "sat"
		} else {
			r = "unsat"
		}
	} else {
		r, _ = i.checkSat(c, i.opts.FeasTimeoutMs, false)
	}
	if r == "unsat" {
		i.record(0)
		panic(abortPath{kind, "assumption infeasible"})
	}
	i.record(1)
	i.addPC(c)
}

// choice returns a concrete number in [0,n) by forking n ways without the
// solver (shape enumeration).
func (i *interpreter) choice(n int) int {
	if n <= 0 {
		panic(abortPath{"infeasible", "empty choice"})
	}
	if n == 1 {
		return 0
	}
	p := i.path
	if d, ok := i.nextRecorded(); ok {
		return int(d)
	}
	for k := n - 1; k >= 1; k-- {
		alt := make([]int32, len(p.decisions)+1)
		copy(alt, p.decisions)
		alt[len(p.decisions)] = int32(k)
		i.pushWork(alt)
	}
	i.stats.Forks += n - 1
	i.record(0)
	return 0
}

// concretize turns an integer-valued term into a concrete value in [lo,hi]
// (inclusive) by forking over the feasible candidates; returns ok=false on the
// path where the value lies outside the range.
func (i *interpreter) concretize(v symv, lo, hi int64) (int64, bool) {
	tb := i.tb
	w := kindBits(v.k)
	for c := lo; c <= hi; c++ {
		if i.branch(tb.Eq(v.t, tb.BV(w, uint64(c)))) {
			return c, true
		}
	}
	return 0, false
}

// concreteIndex concretises an index value used against a container of
// length n (valid 0..n-1, or 0..n for slicing when incl).
func (i *interpreter) concreteInt(x value, n int, incl bool) int64 {
	sv, ok := x.(symv)
	if !ok {
		return asInt64(x)
	}
	hi := int64(n) - 1
	if incl {
		hi = int64(n)
	}
	if hi > 4096 {
		panic(abortPath{"unsupported", "symbolic index into container larger than 4096"})
	}
	c, ok := i.concretize(sv, 0, hi)
	if ok {
		return c
	}
	// out of range on this path: return a value that triggers the native
	// bounds panic in the caller.
	return -1
}

// model ---------------------------------------------------------------------------

func (i *interpreter) ndVars() []*Term {
	var vars []*Term
	for _, r := range i.path.nd {
		if r.term != nil && r.term.op == opVar {
			vars = append(vars, r.term)
		}
	}
	return vars
}

// currentVector must be called while the solver holds a sat scope.
func (i *interpreter) currentVector() ([]ndRec, error) {
	vals, err := i.solver.getValues(i.ndVars())
	if err != nil {
		return nil, err
	}
	out := make([]ndRec, len(i.path.nd))
	memo := map[*Term]uint64{}
	for k, r := range i.path.nd {
		out[k] = ndRec{Kind: r.Kind, Bits: r.Bits}
		if r.term != nil {
			out[k].Bits = evalTerm(r.term, vals, memo)
		}
	}
	return out, nil
}

func fmtVector(v []ndRec) []string {
	out := make([]string, len(v))
	for k, r := range v {
		switch r.Kind {
		case "f64":
			out[k] = fmt.Sprintf("f64:%v(0x%016x)", concreteOf(types.Float64, r.Bits), r.Bits)
		case "byte":
			out[k] = fmt.Sprintf("byte:0x%02x", r.Bits)
		case "bool":
			out[k] = fmt.Sprintf("bool:%v", r.Bits != 0)
		default:
			out[k] = fmt.Sprintf("%s:%d", r.Kind, int64(r.Bits))
		}
	}
	return out
}

// obligation checks an assertion term on the current path.
func (i *interpreter) obligation(c *Term, id string, kind string, msg string) {
	if c.isTrue() || i.path.pcSet[c] {
		if i.path.pos >= i.path.prefixLen {
			i.stats.Obligations++
			i.stats.AssertIDs[id]++
			i.stats.DischargedConc++
		}
		return
	}
	if d, ok := i.nextRecorded(); ok {
		// replayed prefix: the verdict was obtained by the path that first got here
		if c.isFalse() {
			return
		}
		if d == 3 {
			i.assume(c, "violated")
		}
		return
	}
	i.stats.Obligations++
	i.stats.AssertIDs[id]++
	if i.alreadyViolated(id) && !c.isFalse() {
		// enough counterexamples for this assertion are on record; do not spend
		// solver time on more of them (stated in the evidence).
		i.stats.SkippedAfterViolations++
		i.record(3)
		i.assume(c, "violated")
		return
	}
	if _, canF, ok := i.fastDecide(c); ok && !canF {
		i.stats.DischargedFast++
		i.record(2)
		return
	}
	neg := i.tb.Not(c)
	var r string
	var vals map[string]uint64
	if c.isFalse() {
		r, vals = i.checkSat(nil, i.opts.QueryTimeoutMs, true)
	} else {
		r, vals = i.checkSat(neg, i.opts.QueryTimeoutMs, true)
	}
	switch r {
	case "unsat":
		i.stats.DischargedUnsat++
		i.record(2)
		return
	case "sat":
		i.stats.Violated++
		i.reportViolation(Violation{AssertID: id, Kind: kind, Message: msg, Vector: i.vectorFrom(vals),
			Decisions: append([]int32(nil), i.path.decisions...), Notes: append([]string(nil), i.path.notes...)})
	default:
		i.stats.Inconclusive++
		i.inconclusive(id)
	}
	// continue under the assumption that the assertion held; a concretely
	// false assertion changes nothing on the path, which simply goes on (the
	// native replay also records the failure and continues).
	if c.isFalse() {
		i.record(5)
		return
	}
	if r == "sat" {
		i.record(3)
		i.assume(c, "violated")
	} else {
		i.record(4)
	}
}

func (i *interpreter) note(s string) {
	if i.path != nil && len(i.path.notes) < 20 {
		i.path.notes = append(i.path.notes, s)
	}
}

// shared results -------------------------------------------------------------------

type sharedResults struct {
	mu           sync.Mutex
	violations   map[string][]Violation // by assert id
	counts       map[string]int
	inconclusive map[string]int
	witnesses    []Violation // passing-path models for native validation
	concolic     []Violation // inputs of unsupported paths, executed natively (sampling)
	concolicBy   map[string]int
	maxPer       int
}

func (i *interpreter) reportViolation(v Violation) {
	v.Harness = i.harness
	sr := i.shared
	sr.mu.Lock()
	defer sr.mu.Unlock()
	sr.counts[v.AssertID]++
	if len(sr.violations[v.AssertID]) < sr.maxPer {
		sr.violations[v.AssertID] = append(sr.violations[v.AssertID], v)
	}
}

func (i *interpreter) wantConcolic(reason string) bool {
	sr := i.shared
	sr.mu.Lock()
	defer sr.mu.Unlock()
	if sr.concolicBy == nil {
		sr.concolicBy = map[string]int{}
	}
	if sr.concolicBy[reason] >= 8 {
		return false
	}
	sr.concolicBy[reason]++
	return true
}

func (i *interpreter) alreadyViolated(id string) bool {
	sr := i.shared
	sr.mu.Lock()
	defer sr.mu.Unlock()
	return sr.counts[id] >= 20
}

func (i *interpreter) inconclusive(id string) {
	sr := i.shared
	sr.mu.Lock()
	sr.inconclusive[id]++
	sr.mu.Unlock()
}

// runPath executes the harness once along the given decision prefix.
func (i *interpreter) runPath(prefix []int32) {
	i.path = &pathState{
		decisions: append([]int32(nil), prefix...),
		prefixLen: len(prefix),
		pcSet:     map[*Term]bool{},
		dom:       map[*Term]*[4]uint64{},
		entangled: map[*Term]bool{},
		reached:   map[string]bool{},
		forkMaps:  i.opts.ForkMaps,
	}
	end := "complete"
	var endReason string
	i.panicStack = nil
	i.callStack = i.callStack[:0]
	func() {
		defer func() {
			if r := recover(); r != nil {
				switch r := r.(type) {
				case abortPath:
					end = r.kind
					endReason = r.reason
				case targetPanic:
					end = "panic"
					endReason = i.panicString(r.v)
					i.pathPanicked(endReason + " @ " + i.fmtPanicStack())
				default:
					// runtime error of the target program raised natively by the
					// interpreter (index out of range, nil deref, ...) or an
					// interpreter bug.
					msg := fmt.Sprint(r)
					if isTargetRuntimeError(r) {
						end = "panic"
						endReason = msg
						i.pathPanicked(msg + " @ " + i.fmtPanicStack())
					} else {
						end = "unsupported"
						endReason = "interpreter: " + firstLine(msg)
					}
				}
			}
		}()
		call(i, nil, 0, i.runFn, nil)
	}()
	st := i.stats
	st.Paths++
	st.PathsByEnd[end]++
	st.Steps += int64(i.path.steps)
	if i.path.maxDepth > st.MaxCallDepth {
		st.MaxCallDepth = i.path.maxDepth
	}
	switch end {
	case "unsupported":
		st.Unsupported[endReason]++
	case "bound":
		st.BoundExceeded[endReason]++
	case "known":
		st.KnownRegionPaths++
	}
	for k := range i.path.reached {
		st.Reached[k]++
	}
	concolic := end == "unsupported" && i.wantConcolic(endReason)
	// passing paths replayed natively: log-spaced over each worker's paths
	wantWitness := false
	if end == "complete" && i.witnessLeft > 0 {
		i.completeSeen++
		switch i.completeSeen {
		case 2, 20, 200, 2000, 20000:
			wantWitness = true
		}
	}
	if len(st.Samples) < 6 || wantWitness || concolic {
		// produce a model of this path for the evidence samples / native validation
		if r, vals := i.checkSat(nil, i.opts.FeasTimeoutMs, true); r == "sat" {
			vec := i.vectorFrom(vals)
			if len(st.Samples) < 6 {
				st.Samples = append(st.Samples, Sample{Decisions: len(i.path.decisions), End: end + optReason(endReason), Vector: fmtVector(vec), Notes: i.path.notes})
			}
			if wantWitness {
				i.witnessLeft--
				i.shared.mu.Lock()
				i.shared.witnesses = append(i.shared.witnesses, Violation{Harness: i.harness, Kind: "witness", Vector: vec})
				i.shared.mu.Unlock()
			}
			if concolic {
				// concolic fallback: the path left the encodable fragment; one
				// solver-chosen input of it is executed natively by the driver.
				i.shared.mu.Lock()
				i.shared.concolic = append(i.shared.concolic, Violation{Harness: i.harness, Kind: "concolic", Message: endReason, Vector: vec})
				i.shared.mu.Unlock()
			}
		}
	}
	i.solver.popTo(0)
	i.rollback(i.checkpoint)
	i.path = nil
}

func optReason(r string) string {
	if r == "" {
		return ""
	}
	return ": " + r
}

func firstLine(s string) string {
	if k := strings.IndexByte(s, '\n'); k >= 0 {
		return s[:k]
	}
	return s
}

func isTargetRuntimeError(r interface{}) bool {
	switch r := r.(type) {
	case runtimeErrorString:
		return true
	case interface{ RuntimeError() }:
		return true
	case string:
		// interp raises some target errors as strings
		for _, p := range []string{"interface conversion", "method invoked on nil interface", "call of nil function", "value method", "array length is greater"} {
			if strings.HasPrefix(r, p) {
				return true
			}
		}
	}
	return false
}

// pathPanicked: an uncaught panic of the target program ended the path.
func (i *interpreter) pathPanicked(msg string) {
	// A panic escaping the harness is a violation of the implicit no-panic
	// obligation: the current path condition is satisfiable by construction.
	i.stats.Obligations++
	i.stats.AssertIDs["no-panic"]++
	r, vals := i.checkSat(nil, i.opts.QueryTimeoutMs, true)
	if r == "sat" {
		i.stats.Violated++
		i.reportViolation(Violation{AssertID: "no-panic", Kind: "panic", Message: msg, Vector: i.vectorFrom(vals),
			Decisions: append([]int32(nil), i.path.decisions...), Notes: append([]string(nil), i.path.notes...)})
		return
	}
	i.stats.Inconclusive++
	i.inconclusive("no-panic")
}

func (i *interpreter) panicString(v value) string {
	switch v := v.(type) {
	case iface:
		if s, ok := v.v.(string); ok {
			return s
		}
		if v.t != nil {
			return fmt.Sprintf("%s: %s", v.t, toString(v.v))
		}
	}
	return toString(v)
}

func sortedKeys(m map[string]int) []string {
	ks := make([]string, 0, len(m))
	for k := range m {
		ks = append(ks, k)
	}
	sort.Strings(ks)
	return ks
}
