// Copyright 2013 The Go Authors. All rights reserved.
// Use of this source code is governed by a BSD-style
// license that can be found in the LICENSE file.

package interp

// Emulated "reflect" package.
//
// We completely replace the built-in "reflect" package.
// The only thing clients can depend upon are that reflect.Type is an
// interface and reflect.Value is an (opaque) struct.

import (
	"fmt"
	"go/token"
	"go/types"
	"reflect"
	"sync"
	"unsafe"

	"golang.org/x/tools/go/ssa"
)

type opaqueType struct {
	types.Type
	name string
}

func (t *opaqueType) String() string { return t.name }

// A bogus "reflect" type-checker package.  Shared across interpreters.
var reflectTypesPackage = types.NewPackage("reflect", "reflect")

// rtype is the concrete type the interpreter uses to implement the
// reflect.Type interface.
//
// type rtype <opaque>
var rtypeType = makeNamedType("rtype", &opaqueType{nil, "rtype"})

// error is an (interpreted) named type whose underlying type is string.
// The interpreter uses it for all implementations of the built-in error
// interface that it creates.
// We put it in the "reflect" package for expedience.
//
// type error string
var errorType = makeNamedType("error", &opaqueType{nil, "error"})

func makeNamedType(name string, underlying types.Type) *types.Named {
	obj := types.NewTypeName(token.NoPos, reflectTypesPackage, name, nil)
	return types.NewNamed(obj, underlying, nil)
}

// rmeta is the addressability information of a reflect.Value (symgo): addr is
// the cell the value lives in (nil: not addressable); ro marks values obtained
// through unexported struct fields.
type rmeta struct {
	addr *value
	ro   bool
}

func makeReflectValue(t types.Type, v value) value {
	return structure{rtype{t}, v, nil}
}

func makeReflectValueAt(t types.Type, addr *value, ro bool) value {
	return structure{rtype{t}, nil, &rmeta{addr: addr, ro: ro}}
}

func rvMeta(v value) *rmeta {
	s := v.(structure)
	if len(s) < 3 {
		return nil
	}
	m, _ := s[2].(*rmeta)
	return m
}

// rvValid: the zero reflect.Value has no type.
func rvValid(v value) bool {
	rt, ok := v.(structure)[0].(rtype)
	return ok && rt.t != nil
}

func rvMust(v value, method string) {
	if !rvValid(v) {
		panic(runtimeErrorString("reflect: call of reflect.Value." + method + " on zero Value"))
	}
}

// Given a reflect.Value, returns its rtype.
func rV2T(v value) rtype {
	rt, _ := v.(structure)[0].(rtype)
	return rt
}

// Given a reflect.Value, returns the underlying interpreter value (read
// through the address for addressable values).
func rV2V(v value) value {
	if m := rvMeta(v); m != nil && m.addr != nil {
		return load(rV2T(v).t, m.addr)
	}
	x := v.(structure)[1]
	if _, isZeroIface := x.(iface); isZeroIface && !rvValid(v) {
		return nil
	}
	return x
}

// makeReflectType boxes up an rtype in a reflect.Type interface.
func makeReflectType(rt rtype) value {
	return iface{rtypeType, rt}
}

func ext۰reflect۰rtype۰Bits(fr *frame, args []value) value {
	// Signature: func (t reflect.rtype) int
	rt := args[0].(rtype).t
	basic, ok := rt.Underlying().(*types.Basic)
	if !ok {
		panic(fmt.Sprintf("reflect.Type.Bits(%T): non-basic type", rt))
	}
	return int(fr.i.sizes.Sizeof(basic)) * 8
}

func ext۰reflect۰rtype۰Elem(fr *frame, args []value) value {
	// Signature: func (t reflect.rtype) reflect.Type
	e, ok := args[0].(rtype).t.Underlying().(interface {
		Elem() types.Type
	})
	if !ok {
		panic(runtimeErrorString("reflect: Elem of invalid type " + args[0].(rtype).t.String()))
	}
	return makeReflectType(rtype{e.Elem()})
}

func ext۰reflect۰rtype۰AssignableTo(fr *frame, args []value) value {
	// Signature: func (t reflect.rtype, u reflect.Type) bool
	u, _ := args[1].(iface).v.(rtype)
	if u.t == nil {
		panic(runtimeErrorString("reflect: nil type passed to Type.AssignableTo"))
	}
	return types.AssignableTo(args[0].(rtype).t, u.t)
}

func ext۰reflect۰rtype۰Name(fr *frame, args []value) value {
	if n, ok := args[0].(rtype).t.(*types.Named); ok {
		return n.Obj().Name()
	}
	if b, ok := args[0].(rtype).t.(*types.Basic); ok {
		return b.Name()
	}
	return ""
}

func ext۰reflect۰rtype۰Field(fr *frame, args []value) value {
	// Signature: func (t reflect.rtype, i int) reflect.StructField
	st := args[0].(rtype).t.Underlying().(*types.Struct)
	i := args[1].(int)
	f := st.Field(i)
	pkgPath := ""
	if !f.Exported() && f.Pkg() != nil {
		pkgPath = f.Pkg().Path()
	}
	return structure{
		f.Name(),
		pkgPath,
		makeReflectType(rtype{f.Type()}),
		st.Tag(i),
		0,         // TODO(adonovan): offset
		[]value{}, // TODO(adonovan): indices
		f.Anonymous(),
	}
}

func ext۰reflect۰rtype۰In(fr *frame, args []value) value {
	// Signature: func (t reflect.rtype, i int) int
	i := args[1].(int)
	return makeReflectType(rtype{args[0].(rtype).t.(*types.Signature).Params().At(i).Type()})
}

func ext۰reflect۰rtype۰Kind(fr *frame, args []value) value {
	// Signature: func (t reflect.rtype) uint
	return uint(reflectKind(args[0].(rtype).t))
}

func ext۰reflect۰rtype۰NumField(fr *frame, args []value) value {
	// Signature: func (t reflect.rtype) int
	return args[0].(rtype).t.Underlying().(*types.Struct).NumFields()
}

func ext۰reflect۰rtype۰NumIn(fr *frame, args []value) value {
	// Signature: func (t reflect.rtype) int
	return args[0].(rtype).t.Underlying().(*types.Signature).Params().Len()
}

func ext۰reflect۰rtype۰NumMethod(fr *frame, args []value) value {
	// Signature: func (t reflect.rtype) int
	return fr.i.prog.MethodSets.MethodSet(args[0].(rtype).t).Len()
}

func ext۰reflect۰rtype۰NumOut(fr *frame, args []value) value {
	// Signature: func (t reflect.rtype) int
	return args[0].(rtype).t.Underlying().(*types.Signature).Results().Len()
}

func ext۰reflect۰rtype۰Out(fr *frame, args []value) value {
	// Signature: func (t reflect.rtype, i int) int
	i := args[1].(int)
	return makeReflectType(rtype{args[0].(rtype).t.Underlying().(*types.Signature).Results().At(i).Type()})
}

func ext۰reflect۰rtype۰Size(fr *frame, args []value) value {
	// Signature: func (t reflect.rtype) uintptr
	return uintptr(fr.i.sizes.Sizeof(args[0].(rtype).t))
}

func ext۰reflect۰rtype۰String(fr *frame, args []value) value {
	// Signature: func (t reflect.rtype) string
	return args[0].(rtype).t.String()
}

func ext۰reflect۰New(fr *frame, args []value) value {
	// Signature: func (t reflect.Type) reflect.Value
	t := args[0].(iface).v.(rtype).t
	alloc := zero(t)
	return makeReflectValue(types.NewPointer(t), &alloc)
}

func ext۰reflect۰SliceOf(fr *frame, args []value) value {
	// Signature: func (t reflect.rtype) Type
	return makeReflectType(rtype{types.NewSlice(args[0].(iface).v.(rtype).t)})
}

func ext۰reflect۰TypeOf(fr *frame, args []value) value {
	// Signature: func (t reflect.rtype) Type
	if args[0].(iface).t == nil {
		return iface{}
	}
	return makeReflectType(rtype{args[0].(iface).t})
}

func ext۰reflect۰ValueOf(fr *frame, args []value) value {
	// Signature: func (interface{}) reflect.Value
	itf := args[0].(iface)
	if itf.t == nil {
		return structure{rtype{nil}, nil, nil}
	}
	return makeReflectValue(itf.t, itf.v)
}

func ext۰reflect۰Zero(fr *frame, args []value) value {
	// Signature: func (t reflect.Type) reflect.Value
	t := args[0].(iface).v.(rtype).t
	return makeReflectValue(t, zero(t))
}

func reflectKind(t types.Type) reflect.Kind {
	switch t := t.(type) {
	case *types.Named, *types.Alias:
		return reflectKind(t.Underlying())
	case *types.Basic:
		switch t.Kind() {
		case types.Bool:
			return reflect.Bool
		case types.Int:
			return reflect.Int
		case types.Int8:
			return reflect.Int8
		case types.Int16:
			return reflect.Int16
		case types.Int32:
			return reflect.Int32
		case types.Int64:
			return reflect.Int64
		case types.Uint:
			return reflect.Uint
		case types.Uint8:
			return reflect.Uint8
		case types.Uint16:
			return reflect.Uint16
		case types.Uint32:
			return reflect.Uint32
		case types.Uint64:
			return reflect.Uint64
		case types.Uintptr:
			return reflect.Uintptr
		case types.Float32:
			return reflect.Float32
		case types.Float64:
			return reflect.Float64
		case types.Complex64:
			return reflect.Complex64
		case types.Complex128:
			return reflect.Complex128
		case types.String:
			return reflect.String
		case types.UnsafePointer:
			return reflect.UnsafePointer
		}
	case *types.Array:
		return reflect.Array
	case *types.Chan:
		return reflect.Chan
	case *types.Signature:
		return reflect.Func
	case *types.Interface:
		return reflect.Interface
	case *types.Map:
		return reflect.Map
	case *types.Pointer:
		return reflect.Ptr
	case *types.Slice:
		return reflect.Slice
	case *types.Struct:
		return reflect.Struct
	}
	panic(fmt.Sprint("unexpected type: ", t))
}

func ext۰reflect۰Value۰Kind(fr *frame, args []value) value {
	// Signature: func (reflect.Value) uint
	if !rvValid(args[0]) {
		return uint(reflect.Invalid)
	}
	return uint(reflectKind(rV2T(args[0]).t))
}

func ext۰reflect۰Value۰String(fr *frame, args []value) value {
	// Signature: func (reflect.Value) string
	return toString(rV2V(args[0]))
}

func ext۰reflect۰Value۰TypeChecked(fr *frame, args []value) value {
	rvMust(args[0], "Type")
	return makeReflectType(rV2T(args[0]))
}

func ext۰reflect۰Value۰Type(fr *frame, args []value) value {
	// Signature: func (reflect.Value) reflect.Type
	return makeReflectType(rV2T(args[0]))
}

func ext۰reflect۰Value۰Uint(fr *frame, args []value) value {
	// Signature: func (reflect.Value) uint64
	switch v := rV2V(args[0]).(type) {
	case uint:
		return uint64(v)
	case uint8:
		return uint64(v)
	case uint16:
		return uint64(v)
	case uint32:
		return uint64(v)
	case uint64:
		return uint64(v)
	case uintptr:
		return uint64(v)
	}
	panic("reflect.Value.Uint")
}

func ext۰reflect۰Value۰Len(fr *frame, args []value) value {
	// Signature: func (reflect.Value) int
	switch v := rV2V(args[0]).(type) {
	case string:
		return len(v)
	case array:
		return len(v)
	case chan value:
		return cap(v)
	case []value:
		return len(v)
	case *omap:
		return v.len()
	default:
		panic(fmt.Sprintf("reflect.(Value).Len(%v)", v))
	}
}

func ext۰reflect۰Value۰MapIndex(fr *frame, args []value) value {
	// Signature: func (reflect.Value) Value
	tValue := rV2T(args[0]).t.Underlying().(*types.Map).Key()
	k := rV2V(args[1])
	switch m := rV2V(args[0]).(type) {
	case *omap:
		if v, ok := m.lookup(fr.i, k); ok {
			return makeReflectValue(tValue, v)
		}

	default:
		panic(fmt.Sprintf("(reflect.Value).MapIndex(%T, %T)", m, k))
	}
	return makeReflectValue(nil, nil)
}

func ext۰reflect۰Value۰MapKeys(fr *frame, args []value) value {
	// Signature: func (reflect.Value) []Value
	var keys []value
	tKey := rV2T(args[0]).t.Underlying().(*types.Map).Key()
	switch v := rV2V(args[0]).(type) {
	case *omap:
		if v != nil {
			for _, e := range v.entries {
				if e.live {
					keys = append(keys, makeReflectValue(tKey, e.key))
				}
			}
		}

	default:
		panic(fmt.Sprintf("(reflect.Value).MapKeys(%T)", v))
	}
	return keys
}

func ext۰reflect۰Value۰NumField(fr *frame, args []value) value {
	// Signature: func (reflect.Value) int
	return len(rV2V(args[0]).(structure))
}

func ext۰reflect۰Value۰NumMethod(fr *frame, args []value) value {
	// Signature: func (reflect.Value) int
	return fr.i.prog.MethodSets.MethodSet(rV2T(args[0]).t).Len()
}

func ext۰reflect۰Value۰Pointer(fr *frame, args []value) value {
	// Signature: func (v reflect.Value) uintptr
	switch v := rV2V(args[0]).(type) {
	case *value:
		return uintptr(unsafe.Pointer(v))
	case chan value:
		return reflect.ValueOf(v).Pointer()
	case []value:
		return reflect.ValueOf(v).Pointer()
	case *omap:
		return uintptr(unsafe.Pointer(v))
	case *ssa.Function:
		return uintptr(unsafe.Pointer(v))
	case *closure:
		return uintptr(unsafe.Pointer(v))
	default:
		panic(fmt.Sprintf("reflect.(Value).Pointer(%T)", v))
	}
}

func ext۰reflect۰Value۰Index(fr *frame, args []value) value {
	// Signature: func (v reflect.Value, i int) Value
	i := args[1].(int)
	t := rV2T(args[0]).t.Underlying()
	switch v := rV2V(args[0]).(type) {
	case array:
		return makeReflectValue(t.(*types.Array).Elem(), v[i])
	case []value:
		return makeReflectValue(t.(*types.Slice).Elem(), v[i])
	default:
		panic(fmt.Sprintf("reflect.(Value).Index(%T)", v))
	}
}

func ext۰reflect۰Value۰Bool(fr *frame, args []value) value {
	// Signature: func (reflect.Value) bool
	return rV2V(args[0]).(bool)
}

func ext۰reflect۰Value۰CanAddr(fr *frame, args []value) value {
	// Signature: func (v reflect.Value) bool
	m := rvMeta(args[0])
	return rvValid(args[0]) && m != nil && m.addr != nil
}

func ext۰reflect۰Value۰CanInterface(fr *frame, args []value) value {
	// Signature: func (v reflect.Value) bool
	// Always true for our representation.
	return true
}

func ext۰reflect۰Value۰Elem(fr *frame, args []value) value {
	// Signature: func (v reflect.Value) reflect.Value
	rvMust(args[0], "Elem")
	ro := false
	if m := rvMeta(args[0]); m != nil {
		ro = m.ro
	}
	switch t := rV2T(args[0]).t.Underlying().(type) {
	case *types.Pointer:
		x, _ := rV2V(args[0]).(*value)
		if x == nil {
			return structure{rtype{nil}, nil, nil}
		}
		return makeReflectValueAt(t.Elem(), x, ro)
	case *types.Interface:
		x, _ := rV2V(args[0]).(iface)
		if x.t == nil {
			return structure{rtype{nil}, nil, nil}
		}
		return makeReflectValue(x.t, x.v)
	}
	panic(runtimeErrorString("reflect: call of reflect.Value.Elem on " + rV2T(args[0]).t.String() + " Value"))
}

func ext۰reflect۰Value۰Field(fr *frame, args []value) value {
	// Signature: func (v reflect.Value, i int) reflect.Value
	v := args[0]
	rvMust(v, "Field")
	st, ok := rV2T(v).t.Underlying().(*types.Struct)
	if !ok {
		panic(runtimeErrorString("reflect: call of reflect.Value.Field on " + rV2T(v).t.String() + " Value"))
	}
	i := int(asInt64(args[1]))
	if i < 0 || i >= st.NumFields() {
		panic(runtimeErrorString("reflect: Field index out of range"))
	}
	f := st.Field(i)
	m := rvMeta(v)
	ro := !f.Exported() || (m != nil && m.ro)
	if m != nil && m.addr != nil {
		return makeReflectValueAt(f.Type(), &(*m.addr).(structure)[i], ro)
	}
	r := makeReflectValue(f.Type(), rV2V(v).(structure)[i]).(structure)
	if ro {
		r[2] = &rmeta{ro: true}
	}
	return r
}

func ext۰reflect۰Value۰Addr(fr *frame, args []value) value {
	rvMust(args[0], "Addr")
	m := rvMeta(args[0])
	if m == nil || m.addr == nil {
		panic(runtimeErrorString("reflect.Value.Addr of unaddressable value"))
	}
	r := makeReflectValue(types.NewPointer(rV2T(args[0]).t), m.addr).(structure)
	if m.ro {
		r[2] = &rmeta{ro: true}
	}
	return r
}

func ext۰reflect۰Value۰CanSet(fr *frame, args []value) value {
	m := rvMeta(args[0])
	return rvValid(args[0]) && m != nil && m.addr != nil && !m.ro
}

func ext۰reflect۰Append(fr *frame, args []value) value {
	// Signature: func Append(s Value, x ...Value) Value
	s := args[0]
	rvMust(s, "Append")
	st, ok := rV2T(s).t.Underlying().(*types.Slice)
	if !ok {
		panic(runtimeErrorString("reflect: call of reflect.Append on " + rV2T(s).t.String() + " Value"))
	}
	cur, _ := rV2V(s).([]value)
	var add []value
	for _, x := range args[1].([]value) {
		rvMust(x, "Append")
		if !types.AssignableTo(rV2T(x).t, st.Elem()) {
			panic(runtimeErrorString("reflect.Set: value of type " + rV2T(x).t.String() + " is not assignable to type " + st.Elem().String()))
		}
		add = append(add, convertForAssign(st.Elem(), rV2T(x).t, rV2V(x)))
	}
	return makeReflectValue(rV2T(s).t, fr.i.appendValues(cur, add))
}

// convertForAssign boxes a concrete value when it is assigned to an interface type.
func convertForAssign(dst, src types.Type, v value) value {
	if _, isIface := dst.Underlying().(*types.Interface); isIface {
		if _, srcIface := src.Underlying().(*types.Interface); !srcIface {
			return iface{t: src, v: v}
		}
	}
	return v
}

func ext۰reflect۰Value۰Float(fr *frame, args []value) value {
	// Signature: func (reflect.Value) float64
	switch v := rV2V(args[0]).(type) {
	case float32:
		return float64(v)
	case float64:
		return float64(v)
	}
	panic("reflect.Value.Float")
}

func ext۰reflect۰Value۰Interface(fr *frame, args []value) value {
	// Signature: func (v reflect.Value) interface{}
	return ext۰reflect۰valueInterface(fr, args)
}

func ext۰reflect۰Value۰Int(fr *frame, args []value) value {
	// Signature: func (reflect.Value) int64
	switch x := rV2V(args[0]).(type) {
	case int:
		return int64(x)
	case int8:
		return int64(x)
	case int16:
		return int64(x)
	case int32:
		return int64(x)
	case int64:
		return x
	default:
		panic(fmt.Sprintf("reflect.(Value).Int(%T)", x))
	}
}

func ext۰reflect۰Value۰IsNil(fr *frame, args []value) value {
	// Signature: func (reflect.Value) bool
	switch x := rV2V(args[0]).(type) {
	case *value:
		return x == nil
	case chan value:
		return x == nil
	case *omap:
		return x == nil
	case iface:
		return x.t == nil
	case []value:
		return x == nil
	case *ssa.Function:
		return x == nil
	case *ssa.Builtin:
		return x == nil
	case *closure:
		return x == nil
	default:
		panic(fmt.Sprintf("reflect.(Value).IsNil(%T)", x))
	}
}

func ext۰reflect۰Value۰IsValid(fr *frame, args []value) value {
	// Signature: func (reflect.Value) bool
	return rvValid(args[0])
}

func ext۰reflect۰Value۰Set(fr *frame, args []value) value {
	// Signature: func (v Value) Set(x Value)
	v, x := args[0], args[1]
	rvMust(v, "Set")
	m := rvMeta(v)
	if m == nil || m.addr == nil {
		panic(runtimeErrorString("reflect: reflect.Value.Set using unaddressable value"))
	}
	if m.ro {
		panic(runtimeErrorString("reflect: reflect.Value.Set using value obtained using unexported field"))
	}
	rvMust(x, "Set")
	if xm := rvMeta(x); xm != nil && xm.ro {
		panic(runtimeErrorString("reflect: reflect.Value.Set using value obtained using unexported field"))
	}
	if !types.AssignableTo(rV2T(x).t, rV2T(v).t) {
		panic(runtimeErrorString("reflect.Set: value of type " + rV2T(x).t.String() + " is not assignable to type " + rV2T(v).t.String()))
	}
	fr.i.store(rV2T(v).t, m.addr, copyValue(rV2T(x).t, convertForAssign(rV2T(v).t, rV2T(x).t, rV2V(x))))
	return nil
}

// copyValue makes a value copy of aggregates (structs, arrays) so that the
// destination does not alias the source.
func copyValue(t types.Type, v value) value {
	switch v := v.(type) {
	case structure, array:
		tmp := value(v)
		return load(t, &tmp)
	}
	return v
}

func ext۰reflect۰valueInterface(fr *frame, args []value) value {
	// Signature: func (v reflect.Value, safe bool) interface{}
	v := args[0].(structure)
	rvMust(v, "Interface")
	if m := rvMeta(v); m != nil && m.ro {
		panic(runtimeErrorString("reflect.Value.Interface: cannot return value obtained from unexported field or method"))
	}
	if _, isIface := rV2T(v).t.Underlying().(*types.Interface); isIface {
		x, _ := rV2V(v).(iface)
		return x
	}
	return iface{rV2T(v).t, rV2V(v)}
}

func ext۰reflect۰error۰Error(fr *frame, args []value) value {
	return args[0]
}

// newMethod creates a new method of the specified name, package and receiver type.
func newMethod(pkg *ssa.Package, recvType types.Type, name string) *ssa.Function {
	// TODO(adonovan): fix: hack: currently the only part of Signature
	// that is needed is the "pointerness" of Recv.Type, and for
	// now, we'll set it to always be false since we're only
	// concerned with rtype.  Encapsulate this better.
	sig := types.NewSignature(types.NewVar(token.NoPos, nil, "recv", recvType), nil, nil, false)
	fn := pkg.Prog.NewFunction(name, sig, "fake reflect method")
	fn.Pkg = pkg
	return fn
}

var (
	reflectPatchMu sync.Mutex
	reflectPatched = map[*ssa.Program]bool{}
)

func initReflect(i *interpreter) {
	i.reflectPackage = &ssa.Package{
		Prog:    i.prog,
		Pkg:     reflectTypesPackage,
		Members: make(map[string]ssa.Member),
	}

	// Clobber the type-checker's notion of reflect.Value's
	// underlying type so that it more closely matches the fake one
	// (at least in the number of fields---we lie about the type of
	// the rtype field).
	//
	// We must ensure that calls to (ssa.Value).Type() return the
	// fake type so that correct "shape" is used when allocating
	// variables, making zero values, loading, and storing.
	//
	// TODO(adonovan): obviously this is a hack.  We need a cleaner
	// way to fake the reflect package (almost---DeepEqual is fine).
	// One approach would be not to even load its source code, but
	// provide fake source files.  This would guarantee that no bad
	// information leaks into other packages.
	reflectPatchMu.Lock()
	patched := reflectPatched[i.prog]
	reflectPatched[i.prog] = true
	reflectPatchMu.Unlock()
	if r := i.prog.ImportedPackage("reflect"); r != nil && !patched {
		rV := r.Pkg.Scope().Lookup("Value").Type().(*types.Named)

		// delete bodies of the old methods
		mset := i.prog.MethodSets.MethodSet(rV)
		for j := 0; j < mset.Len(); j++ {
			i.prog.MethodValue(mset.At(j)).Blocks = nil
		}

		tEface := types.NewInterface(nil, nil).Complete()
		rV.SetUnderlying(types.NewStruct([]*types.Var{
			types.NewField(token.NoPos, r.Pkg, "t", tEface, false), // a lie
			types.NewField(token.NoPos, r.Pkg, "v", tEface, false),
			types.NewField(token.NoPos, r.Pkg, "m", tEface, false), // symgo: addressability
		}, nil))
	}

	i.rtypeMethods = methodSet{
		"Bits":      newMethod(i.reflectPackage, rtypeType, "Bits"),
		"Elem":      newMethod(i.reflectPackage, rtypeType, "Elem"),
		"Field":     newMethod(i.reflectPackage, rtypeType, "Field"),
		"In":        newMethod(i.reflectPackage, rtypeType, "In"),
		"Kind":      newMethod(i.reflectPackage, rtypeType, "Kind"),
		"NumField":  newMethod(i.reflectPackage, rtypeType, "NumField"),
		"NumIn":     newMethod(i.reflectPackage, rtypeType, "NumIn"),
		"NumMethod": newMethod(i.reflectPackage, rtypeType, "NumMethod"),
		"NumOut":    newMethod(i.reflectPackage, rtypeType, "NumOut"),
		"Out":       newMethod(i.reflectPackage, rtypeType, "Out"),
		"Size":      newMethod(i.reflectPackage, rtypeType, "Size"),
		"String":    newMethod(i.reflectPackage, rtypeType, "String"),
		"AssignableTo": newMethod(i.reflectPackage, rtypeType, "AssignableTo"),
		"Name":      newMethod(i.reflectPackage, rtypeType, "Name"),
	}
	i.errorMethods = methodSet{
		"Error": newMethod(i.reflectPackage, errorType, "Error"),
	}
}
