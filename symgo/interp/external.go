// Externals: natively implemented functions of the target program — the nd
// intrinsics of the harness language, and models of library functions that
// have no interpretable Go body (assembly, unsafe) or whose body would blow up.
//
// Derived from golang.org/x/tools/go/ssa/interp/external.go (BSD licence, see
// LICENSE-go); rewritten for symgo (/verif).

package interp

import (
	"fmt"
	"go/types"
	"math"
	"os"
	"strconv"
	"strings"
	"unicode/utf8"

	"golang.org/x/tools/go/ssa"
)

type externalFn func(fr *frame, args []value) value

// Key strings are from Function.String().
var externals = make(map[string]externalFn)

const ndPkg = "verifharness/nd"

func init() {
	for k, v := range map[string]externalFn{
		"(reflect.Value).Bool":         ext۰reflect۰Value۰Bool,
		"(reflect.Value).CanAddr":      ext۰reflect۰Value۰CanAddr,
		"(reflect.Value).CanInterface": ext۰reflect۰Value۰CanInterface,
		"(reflect.Value).Elem":         ext۰reflect۰Value۰Elem,
		"(reflect.Value).Field":        ext۰reflect۰Value۰Field,
		"(reflect.Value).Float":        ext۰reflect۰Value۰Float,
		"(reflect.Value).Index":        ext۰reflect۰Value۰Index,
		"(reflect.Value).Int":          ext۰reflect۰Value۰Int,
		"(reflect.Value).Interface":    ext۰reflect۰Value۰Interface,
		"(reflect.Value).IsNil":        ext۰reflect۰Value۰IsNil,
		"(reflect.Value).IsValid":      ext۰reflect۰Value۰IsValid,
		"(reflect.Value).Kind":         ext۰reflect۰Value۰Kind,
		"(reflect.Value).Len":          ext۰reflect۰Value۰Len,
		"(reflect.Value).MapIndex":     ext۰reflect۰Value۰MapIndex,
		"(reflect.Value).MapKeys":      ext۰reflect۰Value۰MapKeys,
		"(reflect.Value).NumField":     ext۰reflect۰Value۰NumField,
		"(reflect.Value).NumMethod":    ext۰reflect۰Value۰NumMethod,
		"(reflect.Value).Pointer":      ext۰reflect۰Value۰Pointer,
		"(reflect.Value).Set":          ext۰reflect۰Value۰Set,
		"(reflect.Value).String":       ext۰reflect۰Value۰String,
		"(reflect.Value).Type":         ext۰reflect۰Value۰TypeChecked,
		"(reflect.Value).Uint":         ext۰reflect۰Value۰Uint,
		"(reflect.error).Error":        ext۰reflect۰error۰Error,
		"(reflect.rtype).Bits":         ext۰reflect۰rtype۰Bits,
		"(reflect.rtype).AssignableTo": ext۰reflect۰rtype۰AssignableTo,
		"(reflect.rtype).Name":         ext۰reflect۰rtype۰Name,
		"(reflect.Value).Addr":         ext۰reflect۰Value۰Addr,
		"(reflect.Value).CanSet":       ext۰reflect۰Value۰CanSet,
		"reflect.Append":               ext۰reflect۰Append,
		"(reflect.rtype).Elem":         ext۰reflect۰rtype۰Elem,
		"(reflect.rtype).Field":        ext۰reflect۰rtype۰Field,
		"(reflect.rtype).In":           ext۰reflect۰rtype۰In,
		"(reflect.rtype).Kind":         ext۰reflect۰rtype۰Kind,
		"(reflect.rtype).NumField":     ext۰reflect۰rtype۰NumField,
		"(reflect.rtype).NumIn":        ext۰reflect۰rtype۰NumIn,
		"(reflect.rtype).NumMethod":    ext۰reflect۰rtype۰NumMethod,
		"(reflect.rtype).NumOut":       ext۰reflect۰rtype۰NumOut,
		"(reflect.rtype).Out":          ext۰reflect۰rtype۰Out,
		"(reflect.rtype).Size":         ext۰reflect۰rtype۰Size,
		"(reflect.rtype).String":       ext۰reflect۰rtype۰String,
		"reflect.New":                  ext۰reflect۰New,
		"reflect.SliceOf":              ext۰reflect۰SliceOf,
		"reflect.TypeOf":               ext۰reflect۰TypeOf,
		"reflect.ValueOf":              ext۰reflect۰ValueOf,
		"reflect.Zero":                 ext۰reflect۰Zero,

		"math.Abs":             extMathAbs,
		"math.Max":             extMathMaxMin(true),
		"math.Min":             extMathMaxMin(false),
		"math.Copysign":        extMathCopysign,
		"math.Float64bits":     extMathFloat64bits,
		"math.Float64frombits": extMathFloat64frombits,
		"math.Float32bits":     extMathFloat32bits,
		"math.Float32frombits": extMathFloat32frombits,
		"math.Inf":             extMathInf,
		"math.IsNaN":           extMathIsNaN,
		"math.IsInf":           extMathIsInf,
		"math.NaN":             extMathNaN,
		"math.Signbit":         extMathSignbit,
		"math.Floor":           extMathRTI(rmRTN),
		"math.Ceil":            extMathRTI(rmRTP),
		"math.Trunc":           extMathRTI(rmRTZ),
		"math.RoundToEven":     extMathRTI(rmRNE),
		"math.Round":           extMathRTI(rmRNA),
		"math.Sqrt":            extMathSqrt,
		"math.Mod":             extMathMod,

		"strconv.FormatFloat": extFormatFloat,

		"fmt.Sprintf":  extFmtSprintf,
		"fmt.Errorf":   extFmtErrorf,
		"fmt.Sprint":   extFmtSprint,
		"fmt.Sprintln": extFmtSprintln,
		"fmt.Fprintf":  extFmtFprintf,
		"fmt.Fprint":   extFmtFprint,
		"fmt.Fprintln": extFmtFprintln,
		"fmt.Print":    extFmtPrint,
		"fmt.Println":  extFmtPrintln,
		"fmt.Printf":   extFmtPrintf,

		"(*strings.Builder).String":      extBuilderString,
		"(*strings.Builder).WriteString": extBuilderWriteString,
		"(*strings.Builder).WriteByte":   extBuilderWriteByte,
		"(*strings.Builder).WriteRune":   extBuilderWriteRune,
		"(*strings.Builder).Write":       extBuilderWrite,
		"(*strings.Builder).Len":         extBuilderLen,
		"(*strings.Builder).Cap":         extBuilderLen,
		"(*strings.Builder).Reset":       extBuilderReset,
		"(*strings.Builder).Grow":        extNop,

		"os.Getenv":            extOsGetenv,
		"runtime.GC":           extNop,
		"runtime.Gosched":      extNop,
		"runtime.GOMAXPROCS":   func(fr *frame, args []value) value { return 1 },
		"runtime.NumCPU":       func(fr *frame, args []value) value { return 1 },
		"runtime.Callers":      func(fr *frame, args []value) value { return 0 },
		"runtime.KeepAlive":    extNop,
		"runtime.SetFinalizer": extNop,

		"(*sync.Mutex).Lock":      extNop,
		"(*sync.Mutex).Unlock":    extNop,
		"(*sync.RWMutex).Lock":    extNop,
		"(*sync.RWMutex).Unlock":  extNop,
		"(*sync.RWMutex).RLock":   extNop,
		"(*sync.RWMutex).RUnlock": extNop,
		"(*sync.Once).Do":         extOnceDo,
		"(*sync.WaitGroup).Add":   extNop,
		"(*sync.WaitGroup).Done":  extNop,
		"(*sync.WaitGroup).Wait":  extNop,
		"(*os.File).Close":        func(fr *frame, args []value) value { return iface{} },

		// harness language
		ndPkg + ".F64":         ndF64,
		ndPkg + ".Byte":        ndByte,
		ndPkg + ".Bool":        ndBool,
		ndPkg + ".Int":         ndInt,
		ndPkg + ".Choice":      ndChoice,
		ndPkg + ".Str":         ndStr,
		ndPkg + ".Assume":      ndAssume,
		ndPkg + ".Assert":      ndAssert,
		ndPkg + ".Reach":       ndReach,
		ndPkg + ".Known":       ndKnown,
		ndPkg + ".Unsupported": ndUnsupported,
		ndPkg + ".Note":        ndNote,
		ndPkg + ".And":         ndAnd,
		ndPkg + ".Or":          ndOr,
		ndPkg + ".Not":         ndNot,
		ndPkg + ".Implies":     ndImplies,
		ndPkg + ".IteF64":      ndIte,
		ndPkg + ".IteInt":      ndIte,
		ndPkg + ".IteBool":     ndIte,
		ndPkg + ".IteByte":     ndIte,
		ndPkg + ".IteRune":     ndIte,
		ndPkg + ".SameF64":     ndSameF64,
		ndPkg + ".EqStr":       ndEqStr,
		ndPkg + ".Tier":        ndTier,
		ndPkg + ".Symbolic":    func(fr *frame, args []value) value { return true },
		ndPkg + ".Protect":     ndProtect,
		ndPkg + ".Writes":      ndWrites,
		ndPkg + ".Depth":       ndDepth,
		ndPkg + ".Memo":        ndMemo,
		ndPkg + ".Stdout":      ndStdout,
		ndPkg + ".Stderr":      ndStderr,
		ndPkg + ".IsConcrete":  ndIsConcrete,
		ndPkg + ".ForkMaps":    ndForkMaps,
	} {
		externals[k] = v
	}
}

func extNop(fr *frame, args []value) value { return nil }

func extOnceDo(fr *frame, args []value) value {
	// (*sync.Once).Do(f): done flag is field 0 (atomic.Uint32{_ noCopy; v uint32}) — run f
	// every time the flag cell is zero; keep our own flag in the persist table.
	key := fmt.Sprintf("once:%p", args[0])
	if _, ok := fr.i.persist[key]; ok {
		return nil
	}
	fr.i.persist[key] = true
	if fr.i.logging {
		i := fr.i
		i.logFn(func() { delete(i.persist, key) })
	}
	call(fr.i, fr, 0, args[1], nil)
	return nil
}

func extOsGetenv(fr *frame, args []value) value {
	name, _ := args[0].(string)
	return os.Getenv(name)
}

// ---- math -------------------------------------------------------------------

func f64Term(i *interpreter, v value) (*Term, bool) {
	if s, ok := v.(symv); ok {
		return s.t, true
	}
	return nil, false
}

func extMathAbs(fr *frame, args []value) value {
	if t, ok := f64Term(fr.i, args[0]); ok {
		return mkval(fr.i.tb.fpUn(opFPAbs, t, 0), types.Float64)
	}
	return math.Abs(args[0].(float64))
}

// math.Max / math.Min with Go's special cases (an infinity of the right sign
// wins over NaN, NaN otherwise, +0 > -0).
func extMathMaxMin(max bool) externalFn {
	return func(fr *frame, args []value) value {
		i := fr.i
		if !isSym(args[0]) && !isSym(args[1]) {
			if max {
				return math.Max(args[0].(float64), args[1].(float64))
			}
			return math.Min(args[0].(float64), args[1].(float64))
		}
		tb := i.tb
		x, y := i.lift(args[0]), i.lift(args[1])
		inf := tb.F64(math.Inf(-1))
		if max {
			inf = tb.F64(math.Inf(1))
		}
		isInf := tb.Or(tb.fpCmp(opFPEq, x, inf), tb.fpCmp(opFPEq, y, inf))
		isNaN := tb.Or(tb.fpUn(opFPIsNaN, x, 0), tb.fpUn(opFPIsNaN, y, 0))
		zero := tb.F64(0)
		bothZero := tb.And(tb.fpCmp(opFPEq, x, zero), tb.fpCmp(opFPEq, y, zero))
		xNeg := tb.fpUn(opFPIsNeg, x, 0)
		var zeros, pickX *Term
		if max {
			zeros = tb.Ite(xNeg, y, x)
			pickX = tb.fpCmp(opFPLt, y, x)
		} else {
			zeros = tb.Ite(xNeg, x, y)
			pickX = tb.fpCmp(opFPLt, x, y)
		}
		r := tb.Ite(isInf, inf, tb.Ite(isNaN, tb.F64(math.NaN()), tb.Ite(bothZero, zeros, tb.Ite(pickX, x, y))))
		return mkval(r, types.Float64)
	}
}

func extMathCopysign(fr *frame, args []value) value {
	i := fr.i
	if !isSym(args[0]) && !isSym(args[1]) {
		return math.Copysign(args[0].(float64), args[1].(float64))
	}
	tb := i.tb
	x, y := i.lift(args[0]), i.lift(args[1])
	ax := tb.fpUn(opFPAbs, x, 0)
	// sign bit of y, including NaN's sign: use isNegative for non-NaN; NaN sign unspecified → treat as positive
	neg := tb.fpUn(opFPIsNeg, y, 0)
	return mkval(tb.Ite(neg, tb.fpUn(opFPNeg, ax, 0), ax), types.Float64)
}

func (i *interpreter) freshVar(prefix string, s Sort) *Term {
	i.tb.nvars++
	return i.tb.Var(fmt.Sprintf("%s%d", prefix, len(i.path.nd)*1000+i.path.pos*7+i.tb.nvars), s)
}

func extMathFloat64bits(fr *frame, args []value) value {
	i := fr.i
	if t, ok := f64Term(i, args[0]); ok {
		// no fp→bv function in SMT-LIB: introduce b with to_fp(b) = x
		i.auxCount++
		b := i.tb.Var(fmt.Sprintf("aux_bits_%d_%d", len(i.path.pc), i.auxCount), bvSort(64))
		i.addPC(i.tb.Eq(i.tb.FPFromBV(sortF64, b), t))
		// canonical NaN pattern as produced by the hardware for computed NaNs is not
		// determined; leave b free among NaN encodings.
		return mkval(b, types.Uint64)
	}
	return math.Float64bits(args[0].(float64))
}

func extMathFloat64frombits(fr *frame, args []value) value {
	if s, ok := args[0].(symv); ok {
		return mkval(fr.i.tb.FPFromBV(sortF64, s.t), types.Float64)
	}
	return math.Float64frombits(args[0].(uint64))
}

func extMathFloat32bits(fr *frame, args []value) value {
	if isSym(args[0]) {
		panic(abortPath{"unsupported", "math.Float32bits of symbolic value"})
	}
	return math.Float32bits(args[0].(float32))
}

func extMathFloat32frombits(fr *frame, args []value) value {
	if s, ok := args[0].(symv); ok {
		return mkval(fr.i.tb.FPFromBV(sortF32, s.t), types.Float32)
	}
	return math.Float32frombits(args[0].(uint32))
}

func extMathInf(fr *frame, args []value) value {
	if s, ok := args[0].(symv); ok {
		tb := fr.i.tb
		ge := tb.bvCmp(opBVSle, tb.BV(64, 0), s.t)
		return mkval(tb.Ite(ge, tb.F64(math.Inf(1)), tb.F64(math.Inf(-1))), types.Float64)
	}
	return math.Inf(args[0].(int))
}

func extMathIsNaN(fr *frame, args []value) value {
	if t, ok := f64Term(fr.i, args[0]); ok {
		return mkval(fr.i.tb.fpUn(opFPIsNaN, t, 0), types.Bool)
	}
	return math.IsNaN(args[0].(float64))
}

func extMathIsInf(fr *frame, args []value) value {
	i := fr.i
	tb := i.tb
	if !isSym(args[0]) && !isSym(args[1]) {
		return math.IsInf(args[0].(float64), args[1].(int))
	}
	x := i.lift(args[0])
	sign := i.lift(args[1])
	pos := tb.fpCmp(opFPEq, x, tb.F64(math.Inf(1)))
	neg := tb.fpCmp(opFPEq, x, tb.F64(math.Inf(-1)))
	sGE := tb.bvCmp(opBVSle, tb.BV(64, 0), sign)
	sLE := tb.bvCmp(opBVSle, sign, tb.BV(64, 0))
	return mkval(tb.Or(tb.And(sGE, pos), tb.And(sLE, neg)), types.Bool)
}

func extMathNaN(fr *frame, args []value) value { return math.NaN() }

func extMathSignbit(fr *frame, args []value) value {
	if t, ok := f64Term(fr.i, args[0]); ok {
		// for NaN the sign bit is not observable in SMT; treat NaN as positive
		return mkval(fr.i.tb.fpUn(opFPIsNeg, t, 0), types.Bool)
	}
	return math.Signbit(args[0].(float64))
}

func extMathRTI(rm uint32) externalFn {
	return func(fr *frame, args []value) value {
		if t, ok := f64Term(fr.i, args[0]); ok {
			return mkval(fr.i.tb.fpUn(opFPRTI, t, rm), types.Float64)
		}
		x := args[0].(float64)
		switch rm {
		case rmRTN:
			return math.Floor(x)
		case rmRTP:
			return math.Ceil(x)
		case rmRTZ:
			return math.Trunc(x)
		case rmRNE:
			return math.RoundToEven(x)
		}
		return math.Round(x)
	}
}

func extMathSqrt(fr *frame, args []value) value {
	if t, ok := f64Term(fr.i, args[0]); ok {
		return mkval(fr.i.tb.mk(&Term{op: opFPSqrt, sort: sortF64, args: []*Term{t}}), types.Float64)
	}
	return math.Sqrt(args[0].(float64))
}

// math.Mod: exact on the dyadic domain x = a/2^12, y = b/2^12 with |a|,|b| < 2^40
// and for the documented special cases; other symbolic inputs are unsupported
// (fp.rem at 64 bits does not terminate in the available solvers).
func extMathMod(fr *frame, args []value) value {
	i := fr.i
	if !isSym(args[0]) && !isSym(args[1]) {
		return math.Mod(args[0].(float64), args[1].(float64))
	}
	tb := i.tb
	x, y := i.lift(args[0]), i.lift(args[1])
	nan := tb.F64(math.NaN())
	isNaN := func(t *Term) *Term { return tb.fpUn(opFPIsNaN, t, 0) }
	isInf := func(t *Term) *Term { return tb.fpUn(opFPIsInf, t, 0) }
	zero := tb.F64(0)
	// special cases: Mod(±Inf, y) = NaN; Mod(NaN, y) = NaN; Mod(x, 0) = NaN;
	// Mod(x, ±Inf) = x; Mod(x, NaN) = NaN
	special := tb.Or(tb.Or(isNaN(x), isNaN(y)), tb.Or(isInf(x), tb.fpCmp(opFPEq, y, zero)))
	if i.branch(special) {
		return mkval(nan, types.Float64)
	}
	if i.branch(isInf(y)) {
		return mkval(x, types.Float64)
	}
	// |x| < |y| → x
	ax, ay := tb.fpUn(opFPAbs, x, 0), tb.fpUn(opFPAbs, y, 0)
	if i.branch(tb.fpCmp(opFPLt, ax, ay)) {
		return mkval(x, types.Float64)
	}
	// dyadic domain
	scale := tb.F64(4096)
	sx, sy := tb.fpBin(opFPMul, x, scale), tb.fpBin(opFPMul, y, scale)
	lim := tb.F64(1 << 40)
	isInt := func(t *Term) *Term { return tb.fpCmp(opFPEq, t, tb.fpUn(opFPRTI, t, rmRTZ)) }
	dom := tb.And(tb.And(isInt(sx), isInt(sy)), tb.And(tb.fpCmp(opFPLt, tb.fpUn(opFPAbs, sx, 0), lim), tb.fpCmp(opFPLt, tb.fpUn(opFPAbs, sy, 0), lim)))
	if !i.branch(dom) {
		panic(abortPath{"unsupported", "math.Mod outside the dyadic domain (fp.rem not decidable here)"})
	}
	a, b := tb.FPToSBV(64, sx), tb.FPToSBV(64, sy)
	r := tb.bvBin(opBVSRem, a, b)
	res := tb.fpBin(opFPDiv, tb.SBVToFP(sortF64, r), scale)
	// result zero takes the sign of x
	isZero := tb.Eq(r, tb.BV(64, 0))
	negx := tb.fpUn(opFPIsNeg, x, 0)
	res = tb.Ite(tb.And(isZero, negx), tb.F64(math.Copysign(0, -1)), res)
	return mkval(res, types.Float64)
}

// ---- strconv.FormatFloat -------------------------------------------------------

// extFormatFloat: concrete inputs use the real function. Symbolic float64 with
// fmt 'f' or 'g', prec -1: NaN, ±Inf, ±0 exactly; integers |x| < 2^31 by digit
// extraction; dyadic fractions k/16 with |x| < 2^20; otherwise unsupported.
func extFormatFloat(fr *frame, args []value) value {
	i := fr.i
	if !isSym(args[0]) {
		return strconv.FormatFloat(args[0].(float64), args[1].(byte), args[2].(int), args[3].(int))
	}
	if isSym(args[1]) || isSym(args[2]) || isSym(args[3]) {
		panic(abortPath{"unsupported", "FormatFloat with symbolic format"})
	}
	f := args[1].(byte)
	if args[2].(int) != -1 || args[3].(int) != 64 || (f != 'f' && f != 'g') {
		panic(abortPath{"unsupported", "FormatFloat format other than ('f'|'g', -1, 64) on symbolic value"})
	}
	tb := i.tb
	x := i.lift(args[0])
	if i.branch(tb.fpUn(opFPIsNaN, x, 0)) {
		return "NaN"
	}
	if i.branch(tb.fpCmp(opFPEq, x, tb.F64(math.Inf(1)))) {
		return "+Inf"
	}
	if i.branch(tb.fpCmp(opFPEq, x, tb.F64(math.Inf(-1)))) {
		return "-Inf"
	}
	neg := i.branch(tb.fpUn(opFPIsNeg, x, 0))
	sign := ""
	if neg {
		sign = "-"
	}
	ax := tb.fpUn(opFPAbs, x, 0)
	if i.branch(tb.fpCmp(opFPEq, ax, tb.F64(0))) {
		return sign + "0"
	}
	isInt := tb.fpCmp(opFPEq, ax, tb.fpUn(opFPRTI, ax, rmRTZ))
	// bounds of the digit model (stated in the evidence): quick tier smaller
	limInt := 100000.0
	limFrac := 128.0
	if i.opts.Tier > 0 {
		limInt = 2147483648.0
		limFrac = 1048576.0
	}
	if f == 'g' && limInt > 1000000.0 {
		limInt = 1000000.0 // 'g' with shortest precision switches to exponent form at 1e6
		if limFrac > 1000000.0 {
			limFrac = 1000000.0
		}
	}
	if i.branch(tb.And(isInt, tb.fpCmp(opFPLt, ax, tb.F64(limInt)))) {
		n := tb.FPToUBV(32, ax)
		return mkstrConcat(sign, i.decimalDigits(n))
	}
	// k/16, |x| < 2^20
	s16 := tb.fpBin(opFPMul, ax, tb.F64(16))
	is16 := tb.fpCmp(opFPEq, s16, tb.fpUn(opFPRTI, s16, rmRTZ))
	lo := 0.0625
	if f == 'g' {
		lo = 0.0625 // 'g' uses exponent form below 1e-4 only
	}
	if i.branch(tb.And(is16, tb.And(tb.fpCmp(opFPLt, ax, tb.F64(limFrac)), tb.fpCmp(opFPLe, tb.F64(lo), ax)))) {
		n := tb.FPToUBV(32, s16)
		ip := tb.bvBin(opBVLShr, n, tb.BV(32, 4))
		fp := mkval(tb.Extract(3, 0, n), types.Uint8) // 4-bit value in a byte kind is fine for concretize
		var fv int64
		if sv, ok := fp.(symv); ok {
			sv = symv{t: tb.ZeroExt(4, sv.t), k: types.Uint8}
			c, ok := i.concretize(sv, 1, 15)
			if !ok {
				panic(abortPath{"infeasible", "fraction"})
			}
			fv = c
		} else {
			fv = asInt64(fp)
		}
		frac := strings.TrimRight(fmt.Sprintf("%04d", fv*625), "0")
		return mkstrConcat(sign, append(i.decimalDigits(ip), strBytes("."+frac)...))
	}
	panic(abortPath{"unsupported", "FormatFloat of a symbolic double outside the modelled domain (specials, small integers, k/16)"})
}

func mkstrConcat(prefix string, bs []value) value {
	return mkstr(append(strBytes(prefix), bs...))
}

// decimalDigits renders a 32-bit unsigned term in decimal, forking on the
// number of digits.
func (i *interpreter) decimalDigits(n *Term) []value {
	tb := i.tb
	nd := 10
	p := uint64(10)
	for d := 1; d <= 9; d++ {
		if i.branch(tb.bvCmp(opBVUlt, n, tb.BV(32, p))) {
			nd = d
			break
		}
		p *= 10
	}
	out := make([]value, nd)
	div := uint64(1)
	for k := nd - 1; k >= 0; k-- {
		q := tb.bvBin(opBVUDiv, n, tb.BV(32, div))
		dg := tb.bvBin(opBVURem, q, tb.BV(32, 10))
		out[k] = mkval(tb.bvBin(opBVAdd, tb.Extract(7, 0, dg), tb.BV(8, '0')), types.Uint8)
		div *= 10
	}
	return out
}

// ---- fmt ---------------------------------------------------------------------------

func (i *interpreter) stringify(fr *frame, v value, verb byte) []value {
	switch x := v.(type) {
	case iface:
		if x.t == nil {
			return strBytes("<nil>")
		}
		if verb != 'd' && verb != 'T' {
			// error / Stringer
			for _, m := range []string{"Error", "String"} {
				ms := i.prog.MethodSets.MethodSet(x.t)
				if sel := ms.Lookup(nil, m); sel != nil {
					sig := sel.Type().(*types.Signature)
					if sig.Params().Len() == 0 && sig.Results().Len() == 1 && kindOf(sig.Results().At(0).Type()) == types.String {
						fn := i.prog.MethodValue(sel)
						if fn != nil {
							r := call(i, fr, 0, fn, []value{x.v})
							return strBytes(r)
						}
					}
				}
			}
		}
		if verb == 'T' {
			return strBytes(x.t.String())
		}
		return i.stringify(fr, x.v, verb)
	case string, symstr:
		if verb == 'q' {
			if s, ok := x.(string); ok {
				return strBytes(strconv.Quote(s))
			}
			return append(append(strBytes("\""), strBytes(x)...), '"')
		}
		return strBytes(x)
	case bool:
		return strBytes(strconv.FormatBool(x))
	case symv:
		switch {
		case x.k == types.Bool:
			if i.branch(x.t) {
				return strBytes("true")
			}
			return strBytes("false")
		case kindIsInt(x.k) && kindBits(x.k) <= 64:
			if verb == 'c' {
				return i.encodeRuneSym(nil, i.symConvScalar(types.Int32, x))
			}
			// small non-negative values only
			w := kindBits(x.k)
			tb := i.tb
			var n32 *Term
			inRange := tb.tt
			if w > 32 {
				inRange = tb.bvCmp(opBVUlt, x.t, tb.BV(w, 1<<31))
				n32 = tb.Extract(31, 0, x.t)
			} else {
				n32 = tb.ZeroExt(32-w, x.t)
				if kindSigned(x.k) {
					inRange = tb.bvCmp(opBVSle, tb.BV(w, 0), x.t)
				}
			}
			if !i.branch(inRange) {
				panic(abortPath{"unsupported", "formatting a negative or large symbolic integer"})
			}
			return i.decimalDigits(n32)
		case x.k == types.Float64:
			r := extFormatFloat(fr, []value{x, byte('g'), -1, 64})
			return strBytes(r)
		}
		panic(abortPath{"unsupported", "formatting symbolic value"})
	case int, int8, int16, int32, int64, uint, uint8, uint16, uint32, uint64, uintptr:
		if verb == 'c' {
			return strBytes(string(rune(asInt64(x))))
		}
		if verb == 'x' {
			return strBytes(fmt.Sprintf("%x", x))
		}
		return strBytes(fmt.Sprintf("%d", x))
	case float32, float64:
		return strBytes(fmt.Sprintf("%v", x))
	case *value:
		return strBytes(fmt.Sprintf("%p", x))
	case nil:
		return strBytes("<nil>")
	case structure:
		out := strBytes("{")
		for k, e := range x {
			if k > 0 {
				out = append(out, ' ')
			}
			out = append(out, i.stringify(fr, e, 'v')...)
		}
		return append(out, '}')
	case []value:
		out := strBytes("[")
		for k, e := range x {
			if k > 0 {
				out = append(out, ' ')
			}
			out = append(out, i.stringify(fr, e, 'v')...)
		}
		return append(out, ']')
	}
	return strBytes(toString(v))
}

func (i *interpreter) sprintf(fr *frame, format value, args []value) []value {
	f, ok := format.(string)
	if !ok {
		// symbolic format string: treat as data, no verbs (fmt.Errorf(errBuf.String()))
		bs := strBytes(format)
		for _, b := range bs {
			if c, ok := b.(uint8); !ok || c == '%' {
				panic(abortPath{"unsupported", "symbolic format string"})
			}
		}
		return bs
	}
	var out []value
	argi := 0
	for p := 0; p < len(f); p++ {
		c := f[p]
		if c != '%' {
			out = append(out, c)
			continue
		}
		p++
		if p >= len(f) {
			out = append(out, strBytes("%!(NOVERB)")...)
			break
		}
		// flags / width (ignored except for skipping)
		for p < len(f) && strings.IndexByte("+-# 0123456789.", f[p]) >= 0 {
			p++
		}
		if p >= len(f) {
			break
		}
		verb := f[p]
		if verb == '%' {
			out = append(out, '%')
			continue
		}
		if argi >= len(args) {
			out = append(out, strBytes("%!"+string(verb)+"(MISSING)")...)
			continue
		}
		out = append(out, i.stringify(fr, args[argi], verb)...)
		argi++
	}
	if argi < len(args) {
		out = append(out, strBytes("%!(EXTRA ")...)
		for k := argi; k < len(args); k++ {
			if k > argi {
				out = append(out, strBytes(", ")...)
			}
			out = append(out, i.stringify(fr, args[k], 'T')...)
			out = append(out, '=')
			out = append(out, i.stringify(fr, args[k], 'v')...)
		}
		out = append(out, ')')
	}
	return out
}

func (i *interpreter) sprint(fr *frame, args []value, ln bool) []value {
	var out []value
	prevString := true
	for k, a := range args {
		isStr := false
		if it, ok := a.(iface); ok {
			switch it.v.(type) {
			case string, symstr:
				isStr = true
			}
		}
		if k > 0 && (ln || (!isStr && !prevString)) {
			out = append(out, ' ')
		}
		out = append(out, i.stringify(fr, a, 'v')...)
		prevString = isStr
	}
	if ln {
		out = append(out, '\n')
	}
	return out
}

func variadic(v value) []value {
	if v == nil {
		return nil
	}
	return v.([]value)
}

func extFmtSprintf(fr *frame, args []value) value {
	return mkstr(fr.i.sprintf(fr, args[0], variadic(args[1])))
}

func extFmtSprint(fr *frame, args []value) value {
	return mkstr(fr.i.sprint(fr, variadic(args[0]), false))
}

func extFmtSprintln(fr *frame, args []value) value {
	return mkstr(fr.i.sprint(fr, variadic(args[0]), true))
}

func extFmtErrorf(fr *frame, args []value) value {
	i := fr.i
	msg := mkstr(i.sprintf(fr, args[0], variadic(args[1])))
	// build an *errors.errorString
	errorsPkg := i.prog.ImportedPackage("errors")
	if errorsPkg == nil {
		panic(abortPath{"unsupported", "errors package not loaded"})
	}
	newFn := errorsPkg.Func("New")
	// %w support: keep wrapped error reachable through models.ErrWrap if present
	if f, ok := args[0].(string); ok && strings.Contains(f, "%w") {
		if m := i.models["fmt.errorfWrap"]; m != nil {
			for _, a := range variadic(args[1]) {
				if it, ok := a.(iface); ok && it.t != nil {
					if types.Implements(it.t, errorType.Underlying().(*types.Interface)) || true {
						return call(i, fr, 0, m, []value{msg, a})
					}
				}
			}
		}
	}
	return call(i, fr, 0, newFn, []value{msg})
}

func (i *interpreter) writeTo(fr *frame, w value, bs []value) {
	// os.Stdout / os.Stderr are *os.File; anything else: call Write.
	it := w.(iface)
	if it.t != nil && it.t.String() == "*os.File" {
		osPkg := i.prog.ImportedPackage("os")
		if osPkg != nil {
			if g, ok := osPkg.Members["Stdout"].(*ssa.Global); ok {
				if cell := i.globals[g]; cell != nil && *cell == it.v {
					i.captureStdout(bs)
					return
				}
			}
			if g, ok := osPkg.Members["Stderr"].(*ssa.Global); ok {
				if cell := i.globals[g]; cell != nil && *cell == it.v {
					old := i.stderr
					i.stderr = append(i.stderr[:len(i.stderr):len(i.stderr)], mkstr(bs))
					i.logFn(func() { i.stderr = old })
					return
				}
			}
		}
		return // other files: dropped
	}
	ms := i.prog.MethodSets.MethodSet(it.t)
	if sel := ms.Lookup(nil, "Write"); sel != nil {
		fn := i.prog.MethodValue(sel)
		cp := make([]value, len(bs))
		copy(cp, bs)
		call(i, fr, 0, fn, []value{it.v, cp})
		return
	}
	panic(abortPath{"unsupported", "Fprintf to " + it.t.String()})
}

func (i *interpreter) captureStdout(bs []value) {
	old := i.stdout
	i.stdout = append(i.stdout[:len(i.stdout):len(i.stdout)], mkstr(bs))
	i.logFn(func() { i.stdout = old })
}

func extFmtFprintf(fr *frame, args []value) value {
	bs := fr.i.sprintf(fr, args[1], variadic(args[2]))
	fr.i.writeTo(fr, args[0], bs)
	return tuple{len(bs), iface{}}
}

func extFmtFprint(fr *frame, args []value) value {
	bs := fr.i.sprint(fr, variadic(args[1]), false)
	fr.i.writeTo(fr, args[0], bs)
	return tuple{len(bs), iface{}}
}

func extFmtFprintln(fr *frame, args []value) value {
	bs := fr.i.sprint(fr, variadic(args[1]), true)
	fr.i.writeTo(fr, args[0], bs)
	return tuple{len(bs), iface{}}
}

func extFmtPrint(fr *frame, args []value) value {
	bs := fr.i.sprint(fr, variadic(args[0]), false)
	fr.i.captureStdout(bs)
	return tuple{len(bs), iface{}}
}

func extFmtPrintln(fr *frame, args []value) value {
	bs := fr.i.sprint(fr, variadic(args[0]), true)
	fr.i.captureStdout(bs)
	return tuple{len(bs), iface{}}
}

func extFmtPrintf(fr *frame, args []value) value {
	bs := fr.i.sprintf(fr, args[0], variadic(args[1]))
	fr.i.captureStdout(bs)
	return tuple{len(bs), iface{}}
}

// ---- strings.Builder ------------------------------------------------------------------
// type Builder struct { addr *Builder; buf []byte }

func builderBuf(args []value) *value {
	p := args[0].(*value)
	if p == nil {
		panic(runtimeErrorString("invalid memory address or nil pointer dereference"))
	}
	return &(*p).(structure)[1]
}

func extBuilderString(fr *frame, args []value) value {
	buf, _ := (*builderBuf(args)).([]value)
	return mkstr(buf)
}

func (i *interpreter) builderAppend(args []value, bs []value) {
	cell := builderBuf(args)
	buf, _ := (*cell).([]value)
	nb := i.appendValues(buf, bs)
	i.logStore(cell)
	*cell = nb
}

func extBuilderWriteString(fr *frame, args []value) value {
	bs := strBytes(args[1])
	fr.i.builderAppend(args, bs)
	return tuple{len(bs), iface{}}
}

func extBuilderWrite(fr *frame, args []value) value {
	bs := args[1].([]value)
	fr.i.builderAppend(args, bs)
	return tuple{len(bs), iface{}}
}

func extBuilderWriteByte(fr *frame, args []value) value {
	fr.i.builderAppend(args, []value{args[1]})
	return iface{}
}

func extBuilderWriteRune(fr *frame, args []value) value {
	bs := fr.i.encodeRuneSym(nil, args[1])
	fr.i.builderAppend(args, bs)
	return tuple{len(bs), iface{}}
}

func extBuilderLen(fr *frame, args []value) value {
	buf, _ := (*builderBuf(args)).([]value)
	return len(buf)
}

func extBuilderReset(fr *frame, args []value) value {
	cell := builderBuf(args)
	fr.i.logStore(cell)
	*cell = []value(nil)
	return nil
}

// ---- nd: the harness language -------------------------------------------------------------

func (i *interpreter) needPath(what string) *pathState {
	if i.path == nil {
		panic(fmt.Sprintf("nd.%s called outside Run (in Setup?)", what))
	}
	return i.path
}

func (i *interpreter) newND(kind string, s Sort) *Term {
	p := i.needPath(kind)
	v := i.tb.Var(fmt.Sprintf("nd%d_%s", len(p.nd), kind), s)
	p.nd = append(p.nd, ndRec{Kind: kind, term: v})
	return v
}

func ndF64(fr *frame, args []value) value {
	return symv{t: fr.i.newND("f64", sortF64), k: types.Float64}
}

func ndByte(fr *frame, args []value) value {
	return symv{t: fr.i.newND("byte", bvSort(8)), k: types.Uint8}
}

func ndBool(fr *frame, args []value) value {
	return symv{t: fr.i.newND("bool", sortBool), k: types.Bool}
}

// nd.Int(lo, hi): symbolic int constrained to [lo,hi]
func ndInt(fr *frame, args []value) value {
	i := fr.i
	lo, hi := asInt64(args[0]), asInt64(args[1])
	if lo == hi {
		p := i.needPath("Int")
		p.nd = append(p.nd, ndRec{Kind: "int", Bits: uint64(lo), conc: true})
		return int(lo)
	}
	v := i.newND("int", bvSort(64))
	tb := i.tb
	i.assume(tb.And(tb.bvCmp(opBVSle, tb.BV(64, uint64(lo)), v), tb.bvCmp(opBVSle, v, tb.BV(64, uint64(hi)))), "infeasible")
	return symv{t: v, k: types.Int}
}

// nd.Choice(n): concrete value in [0,n), forking without the solver.
func ndChoice(fr *frame, args []value) value {
	i := fr.i
	p := i.needPath("Choice")
	n := int(asInt64(args[0]))
	c := i.choice(n)
	p.nd = append(p.nd, ndRec{Kind: "choice", Bits: uint64(c), conc: true})
	return c
}

// nd.Str(n): string of exactly n symbolic bytes.
func ndStr(fr *frame, args []value) value {
	n := int(asInt64(args[0]))
	bs := make([]value, n)
	for k := range bs {
		bs[k] = symv{t: fr.i.newND("byte", bvSort(8)), k: types.Uint8}
	}
	return mkstr(bs)
}

func boolTerm(i *interpreter, v value) *Term {
	switch v := v.(type) {
	case bool:
		return i.tb.Bool(v)
	case symv:
		return v.t
	}
	panic(fmt.Sprintf("boolTerm: %T", v))
}

func ndAssume(fr *frame, args []value) value {
	fr.i.needPath("Assume")
	fr.i.assume(boolTerm(fr.i, args[0]), "infeasible")
	return nil
}

func ndAssert(fr *frame, args []value) value {
	fr.i.needPath("Assert")
	id, _ := args[1].(string)
	fr.i.obligation(boolTerm(fr.i, args[0]), id, "assert", "")
	return nil
}

func ndReach(fr *frame, args []value) value {
	id, _ := args[0].(string)
	fr.i.needPath("Reach").reached[id] = true
	return nil
}

// nd.Known(id, region): if id is an active known finding, the region is carved
// out of the path (assume ¬region). Always returns false.
func ndKnown(fr *frame, args []value) value {
	i := fr.i
	i.needPath("Known")
	id, _ := args[0].(string)
	if i.opts.ActiveKnown[id] {
		i.assume(i.tb.Not(boolTerm(i, args[1])), "known")
	}
	return false
}

func ndUnsupported(fr *frame, args []value) value {
	r, _ := args[0].(string)
	panic(abortPath{"unsupported", "harness: " + r})
}

func ndNote(fr *frame, args []value) value {
	if s, ok := args[0].(string); ok {
		fr.i.note(s)
	}
	return nil
}

func ndAnd(fr *frame, args []value) value {
	return mkval(fr.i.tb.And(boolTerm(fr.i, args[0]), boolTerm(fr.i, args[1])), types.Bool)
}

func ndOr(fr *frame, args []value) value {
	return mkval(fr.i.tb.Or(boolTerm(fr.i, args[0]), boolTerm(fr.i, args[1])), types.Bool)
}

func ndNot(fr *frame, args []value) value {
	return mkval(fr.i.tb.Not(boolTerm(fr.i, args[0])), types.Bool)
}

func ndImplies(fr *frame, args []value) value {
	return mkval(fr.i.tb.Or(fr.i.tb.Not(boolTerm(fr.i, args[0])), boolTerm(fr.i, args[1])), types.Bool)
}

func ndIte(fr *frame, args []value) value {
	i := fr.i
	c := boolTerm(i, args[0])
	if c.isTrue() {
		return args[1]
	}
	if c.isFalse() {
		return args[2]
	}
	k := valueKind(args[1])
	return mkval(i.tb.Ite(c, i.lift(args[1]), i.lift(args[2])), k)
}

// nd.SameF64(a,b): identical doubles (NaN same as NaN, +0 different from -0).
func ndSameF64(fr *frame, args []value) value {
	i := fr.i
	if !isSym(args[0]) && !isSym(args[1]) {
		a, b := args[0].(float64), args[1].(float64)
		if a != a || b != b {
			return a != a && b != b
		}
		return math.Float64bits(a) == math.Float64bits(b)
	}
	return mkval(i.tb.Eq(i.lift(args[0]), i.lift(args[1])), types.Bool)
}

func ndEqStr(fr *frame, args []value) value {
	return mkval(fr.i.eqTerm(nil, args[0], args[1]), types.Bool)
}

func ndTier(fr *frame, args []value) value { return fr.i.opts.Tier }

func ndDepth(fr *frame, args []value) value {
	if fr.i.path == nil {
		return 0
	}
	return fr.i.path.depth
}

func ndIsConcrete(fr *frame, args []value) value {
	return !containsSym(args[0])
}

func ndForkMaps(fr *frame, args []value) value {
	fr.i.needPath("ForkMaps").forkMaps = args[0].(bool)
	return nil
}

// nd.Protect(roots ...any) int: snapshot the cells reachable from roots.
func ndProtect(fr *frame, args []value) value {
	i := fr.i
	p := i.needPath("Protect")
	ps := i.newProtect("", variadic(args[0]))
	p.protects = append(p.protects, ps)
	return len(p.protects) - 1
}

// nd.Writes(h int, netOnly bool) int: number of protected cells written since.
func ndWrites(fr *frame, args []value) value {
	i := fr.i
	p := i.needPath("Writes")
	h := int(asInt64(args[0]))
	ws := i.protectedWrites(p.protects[h], args[1].(bool))
	for k, w := range ws {
		if k < 4 {
			i.note("write to protected cell " + w)
		}
	}
	return len(ws)
}

// nd.Memo(key string, f func() any) any: run f once per worker, outside the
// undo log (results persist across paths). f must not depend on path state.
func ndMemo(fr *frame, args []value) value {
	i := fr.i
	key, _ := args[0].(string)
	if v, ok := i.persist["memo:"+key]; ok {
		return v
	}
	savedLogging, savedPath := i.logging, i.path
	i.logging, i.path = false, nil
	var v value
	func() {
		defer func() { i.logging, i.path = savedLogging, savedPath }()
		v = call(i, fr, 0, args[1], nil)
	}()
	i.persist["memo:"+key] = v
	return v
}

// nd.Stdout() []string: the writes to standard output captured so far.
func ndStdout(fr *frame, args []value) value {
	out := make([]value, len(fr.i.stdout))
	copy(out, fr.i.stdout)
	return out
}

// nd.Stderr() []string: the writes to standard error captured so far.
func ndStderr(fr *frame, args []value) value {
	out := make([]value, len(fr.i.stderr))
	copy(out, fr.i.stderr)
	return out
}

var _ = utf8.RuneError
