// SMT solver pipe (one long-lived process per worker; push/pop mirrors the
// path condition).
//
// Part of symgo (/verif).

package interp

import (
	"bufio"
	"context"
	"fmt"
	"io"
	"math"
	"os"
	"os/exec"
	"strconv"
	"strings"
	"time"
)

type solverKind int

const (
	solverZ3 solverKind = iota
	solverCVC5
)

type solver struct {
	kind    solverKind
	path    string
	cmd     *exec.Cmd
	in      io.WriteCloser
	out     *bufio.Reader
	defined map[int]bool
	depth   int
	log     io.Writer // optional transcript

	nSat, nUnsat, nUnknown int
	wall                   time.Duration
	errors                 []string
	curTimeout             int
	cvc5Path               string
	nStandalone            int
}

func newSolver(path string, kind solverKind, transcript io.Writer) (*solver, error) {
	s := &solver{kind: kind, path: path, log: transcript}
	if err := s.start(); err != nil {
		return nil, err
	}
	return s, nil
}

func (s *solver) start() error {
	var args []string
	switch s.kind {
	case solverZ3:
		args = []string{"-in"}
	case solverCVC5:
		args = []string{"--incremental", "--lang=smt2", "--global-declarations", "--produce-models", "--fp-exp"}
	}
	s.cmd = exec.Command(s.path, args...)
	in, err := s.cmd.StdinPipe()
	if err != nil {
		return err
	}
	out, err := s.cmd.StdoutPipe()
	if err != nil {
		return err
	}
	s.cmd.Stderr = nil
	if err := s.cmd.Start(); err != nil {
		return err
	}
	s.in = in
	s.out = bufio.NewReaderSize(out, 1<<16)
	s.defined = make(map[int]bool)
	s.depth = 0
	s.curTimeout = -1
	if s.kind == solverZ3 {
		s.send("(set-option :global-declarations true)")
		s.send("(set-option :produce-models true)")
	} else {
		s.send("(set-logic ALL)")
	}
	return nil
}

func (s *solver) restart() {
	s.close()
	if err := s.start(); err != nil {
		panic(fmt.Sprintf("cannot restart solver: %v", err))
	}
}

func (s *solver) close() {
	if s.cmd != nil {
		s.in.Close()
		s.cmd.Process.Kill()
		s.cmd.Wait()
		s.cmd = nil
	}
}

func (s *solver) send(line string) {
	if s.log != nil {
		fmt.Fprintln(s.log, line)
	}
	io.WriteString(s.in, line)
	io.WriteString(s.in, "\n")
}

func (s *solver) readLine() string {
	line, err := s.out.ReadString('\n')
	if err != nil {
		return "(error \"solver died: " + err.Error() + "\")"
	}
	line = strings.TrimRight(line, "\r\n")
	if s.log != nil {
		fmt.Fprintln(s.log, "; <- "+line)
	}
	return line
}

// define makes sure t (and its sub-terms) have names in the solver and
// returns t's name.
func (s *solver) define(t *Term) string {
	switch t.op {
	case opConstBool, opConstBV, opConstFP:
		return t.render(nil)
	}
	if s.defined[t.id] {
		return s.name(t)
	}
	// iterative post-order to avoid deep recursion
	type item struct {
		t    *Term
		done bool
	}
	stack := []item{{t, false}}
	for len(stack) > 0 {
		it := stack[len(stack)-1]
		stack = stack[:len(stack)-1]
		if s.defined[it.t.id] || it.t.isConst() {
			continue
		}
		if it.t.op == opVar {
			s.send(fmt.Sprintf("(declare-const %s %s)", it.t.name, it.t.sort))
			s.defined[it.t.id] = true
			continue
		}
		if !it.done {
			stack = append(stack, item{it.t, true})
			for _, a := range it.t.args {
				if !s.defined[a.id] && !a.isConst() {
					stack = append(stack, item{a, false})
				}
			}
			continue
		}
		body := it.t.render(s.argName)
		s.send(fmt.Sprintf("(define-fun %s () %s %s)", s.name(it.t), it.t.sort, body))
		s.defined[it.t.id] = true
	}
	return s.name(t)
}

func (s *solver) name(t *Term) string {
	if t.op == opVar {
		return t.name
	}
	return "t" + strconv.Itoa(t.id)
}

func (s *solver) argName(t *Term) string {
	if t.isConst() {
		return t.render(nil)
	}
	return s.name(t)
}

func (s *solver) push(t *Term) {
	n := s.define(t)
	s.send("(push 1)")
	s.send("(assert " + n + ")")
	s.depth++
}

func (s *solver) popTo(depth int) {
	if s.depth > depth {
		s.send(fmt.Sprintf("(pop %d)", s.depth-depth))
		s.depth = depth
	}
}

func (s *solver) setTimeout(ms int) {
	if ms == s.curTimeout {
		return
	}
	s.curTimeout = ms
	if s.kind == solverZ3 {
		s.send(fmt.Sprintf("(set-option :timeout %d)", ms))
	} else {
		s.send(fmt.Sprintf("(set-option :tlimit-per %d)", ms))
	}
}

// check asks for satisfiability of the current stack plus extra (may be nil).
// Returns "sat", "unsat" or "unknown" (errors are reported as unknown and
// recorded). If wantModel and the answer is sat, the solver is left inside the
// pushed scope so that getValues can be called; the caller must call endCheck.
func (s *solver) check(extra *Term, timeoutMs int, keepScope bool) string {
	start := time.Now()
	s.setTimeout(timeoutMs)
	var n string
	if extra != nil {
		n = s.define(extra)
	}
	s.send("(push 1)")
	if extra != nil {
		s.send("(assert " + n + ")")
	}
	s.send("(check-sat)")
	res := "unknown"
	for {
		line := s.readLine()
		if line == "sat" || line == "unsat" || line == "unknown" {
			res = line
			break
		}
		if strings.HasPrefix(line, "(error") {
			s.errors = append(s.errors, line)
			if strings.Contains(line, "solver died") {
				s.wall += time.Since(start)
				s.nUnknown++
				return "died"
			}
			// keep reading: check-sat still answers after an error line, but the
			// answer is not trusted.
			for {
				l2 := s.readLine()
				if l2 == "sat" || l2 == "unsat" || l2 == "unknown" || strings.Contains(l2, "solver died") {
					break
				}
			}
			res = "unknown"
			break
		}
		if line == "timeout" || strings.Contains(line, "interrupted") {
			res = "unknown"
			break
		}
	}
	switch res {
	case "sat":
		s.nSat++
	case "unsat":
		s.nUnsat++
	default:
		s.nUnknown++
	}
	if !(keepScope && res == "sat") {
		s.send("(pop 1)")
	}
	s.wall += time.Since(start)
	return res
}

func (s *solver) endCheck() {
	s.send("(pop 1)")
}

// getValues returns raw bit patterns for the given variables in the current
// (sat) context.
func (s *solver) getValues(vars []*Term) (map[string]uint64, error) {
	res := make(map[string]uint64)
	if len(vars) == 0 {
		return res, nil
	}
	var sb strings.Builder
	sb.WriteString("(get-value (")
	for i, v := range vars {
		if i > 0 {
			sb.WriteByte(' ')
		}
		sb.WriteString(s.define(v))
	}
	sb.WriteString("))")
	s.send(sb.String())
	s.send("(echo \"ENDVALUES\")")
	var text strings.Builder
	for {
		line := s.readLine()
		if strings.Contains(line, "ENDVALUES") {
			break
		}
		if strings.Contains(line, "solver died") {
			return nil, fmt.Errorf("solver died")
		}
		text.WriteString(line)
		text.WriteByte(' ')
	}
	toks := tokenize(text.String())
	pos := 0
	sx, err := parseSexp(toks, &pos)
	if err != nil {
		return nil, fmt.Errorf("get-value parse: %v in %q", err, text.String())
	}
	byName := make(map[string]*Term)
	for _, v := range vars {
		byName[s.name(v)] = v
	}
	for _, pair := range sx.list {
		if len(pair.list) != 2 {
			continue
		}
		nm := pair.list[0].atom
		v, ok := byName[nm]
		if !ok {
			continue
		}
		bits, err := decodeValue(v.sort, pair.list[1])
		if err != nil {
			return nil, err
		}
		res[v.name] = bits
	}
	return res, nil
}

type sexp struct {
	atom string
	list []*sexp
}

func tokenize(s string) []string {
	var toks []string
	i := 0
	for i < len(s) {
		c := s[i]
		switch {
		case c == ' ' || c == '\t' || c == '\n' || c == '\r':
			i++
		case c == '(' || c == ')':
			toks = append(toks, string(c))
			i++
		case c == '"':
			j := i + 1
			for j < len(s) && s[j] != '"' {
				j++
			}
			toks = append(toks, s[i:j+1])
			i = j + 1
		default:
			j := i
			for j < len(s) && !strings.ContainsRune(" \t\n\r()", rune(s[j])) {
				j++
			}
			toks = append(toks, s[i:j])
			i = j
		}
	}
	return toks
}

func parseSexp(toks []string, pos *int) (*sexp, error) {
	if *pos >= len(toks) {
		return nil, fmt.Errorf("unexpected end")
	}
	t := toks[*pos]
	*pos++
	if t == "(" {
		n := &sexp{}
		for {
			if *pos >= len(toks) {
				return nil, fmt.Errorf("unbalanced")
			}
			if toks[*pos] == ")" {
				*pos++
				return n, nil
			}
			c, err := parseSexp(toks, pos)
			if err != nil {
				return nil, err
			}
			n.list = append(n.list, c)
		}
	}
	if t == ")" {
		return nil, fmt.Errorf("unexpected )")
	}
	return &sexp{atom: t}, nil
}

func parseBVLit(a string) (uint64, int, error) {
	if strings.HasPrefix(a, "#x") {
		v, err := strconv.ParseUint(a[2:], 16, 64)
		return v, 4 * (len(a) - 2), err
	}
	if strings.HasPrefix(a, "#b") {
		v, err := strconv.ParseUint(a[2:], 2, 64)
		return v, len(a) - 2, err
	}
	return 0, 0, fmt.Errorf("not a bv literal: %s", a)
}

func decodeValue(s Sort, x *sexp) (uint64, error) {
	switch s.k {
	case sBool:
		if x.atom == "true" {
			return 1, nil
		}
		if x.atom == "false" {
			return 0, nil
		}
		return 0, fmt.Errorf("bad bool %v", x)
	case sBV:
		if x.atom != "" {
			v, _, err := parseBVLit(x.atom)
			return v, err
		}
		// (_ bv123 8)
		if len(x.list) == 3 && x.list[0].atom == "_" && strings.HasPrefix(x.list[1].atom, "bv") {
			v, err := strconv.ParseUint(x.list[1].atom[2:], 10, 64)
			return v, err
		}
		return 0, fmt.Errorf("bad bv value")
	case sF64, sF32:
		eb, mb := 11, 52
		if s.k == sF32 {
			eb, mb = 8, 23
		}
		if len(x.list) == 4 && x.list[0].atom == "fp" {
			sg, _, e1 := parseBVLit(x.list[1].atom)
			ex, _, e2 := parseBVLit(x.list[2].atom)
			mn, _, e3 := parseBVLit(x.list[3].atom)
			if e1 != nil || e2 != nil || e3 != nil {
				return 0, fmt.Errorf("bad fp literal")
			}
			return sg<<uint(eb+mb) | ex<<uint(mb) | mn, nil
		}
		if len(x.list) == 4 && x.list[0].atom == "_" {
			var f float64
			switch x.list[1].atom {
			case "NaN":
				f = math.NaN()
			case "+oo":
				f = math.Inf(1)
			case "-oo":
				f = math.Inf(-1)
			case "+zero":
				f = 0
			case "-zero":
				f = math.Copysign(0, -1)
			default:
				return 0, fmt.Errorf("bad fp special %s", x.list[1].atom)
			}
			if s.k == sF64 {
				return math.Float64bits(f), nil
			}
			return uint64(math.Float32bits(float32(f))), nil
		}
		return 0, fmt.Errorf("bad fp value")
	}
	return 0, fmt.Errorf("bad sort")
}

// ---- standalone (non-incremental) queries -------------------------------------
//
// z3's incremental core is much slower on floating-point goals than its
// one-shot tactic pipeline (measured: 19 s vs > 60 s on the round() equivalence;
// cvc5 4.5 s). Queries that involve FP terms are therefore written out as a
// complete script and given to fresh z3 and cvc5 processes in parallel; the
// first definitive answer wins. Disagreement is impossible to observe this way,
// so the thorough tier can ask for both answers (crossCheck).

type standaloneResult struct {
	res    string
	vals   map[string]uint64
	solver string
}

func (s *solver) script(pc []*Term, extra *Term, vars []*Term, forCVC5 bool) string {
	var sb strings.Builder
	if forCVC5 {
		sb.WriteString("(set-logic ALL)\n(set-option :produce-models true)\n")
	}
	defined := map[int]bool{}
	var emit func(t *Term)
	emit = func(root *Term) {
		type item struct {
			t    *Term
			done bool
		}
		stack := []item{{root, false}}
		for len(stack) > 0 {
			it := stack[len(stack)-1]
			stack = stack[:len(stack)-1]
			if defined[it.t.id] || it.t.isConst() {
				continue
			}
			if it.t.op == opVar {
				fmt.Fprintf(&sb, "(declare-const %s %s)\n", it.t.name, it.t.sort)
				defined[it.t.id] = true
				continue
			}
			if !it.done {
				stack = append(stack, item{it.t, true})
				for _, a := range it.t.args {
					if !defined[a.id] && !a.isConst() {
						stack = append(stack, item{a, false})
					}
				}
				continue
			}
			fmt.Fprintf(&sb, "(define-fun %s () %s %s)\n", s.name(it.t), it.t.sort, it.t.render(s.argName))
			defined[it.t.id] = true
		}
	}
	for _, c := range pc {
		emit(c)
		fmt.Fprintf(&sb, "(assert %s)\n", s.argName(c))
	}
	if extra != nil {
		emit(extra)
		fmt.Fprintf(&sb, "(assert %s)\n", s.argName(extra))
	}
	for _, v := range vars {
		emit(v)
	}
	sb.WriteString("(check-sat)\n")
	if len(vars) > 0 {
		sb.WriteString("(get-value (")
		for k, v := range vars {
			if k > 0 {
				sb.WriteByte(' ')
			}
			sb.WriteString(s.name(v))
		}
		sb.WriteString("))\n")
	}
	return sb.String()
}

func runOneShot(path string, args []string, script string, timeout time.Duration, vars []*Term, nameOf func(*Term) string) standaloneResult {
	f, err := os.CreateTemp("", "symgo-q-*.smt2")
	if err != nil {
		return standaloneResult{res: "unknown"}
	}
	defer os.Remove(f.Name())
	f.WriteString(script)
	f.Close()
	ctx, cancel := context.WithTimeout(context.Background(), timeout)
	defer cancel()
	cmd := exec.CommandContext(ctx, path, append(args, f.Name())...)
	out, _ := cmd.Output()
	text := string(out)
	lines := strings.SplitN(text, "\n", 2)
	first := strings.TrimSpace(lines[0])
	if strings.Contains(text, "(error") && first != "sat" && first != "unsat" {
		return standaloneResult{res: "unknown"}
	}
	switch first {
	case "unsat":
		if strings.Contains(text, "(error") && !strings.Contains(lines[len(lines)-1], "model is not available") {
			return standaloneResult{res: "unknown"}
		}
		return standaloneResult{res: "unsat"}
	case "sat":
		r := standaloneResult{res: "sat", vals: map[string]uint64{}}
		if len(vars) > 0 && len(lines) > 1 {
			toks := tokenize(lines[1])
			pos := 0
			sx, err := parseSexp(toks, &pos)
			if err != nil {
				return standaloneResult{res: "unknown"}
			}
			byName := map[string]*Term{}
			for _, v := range vars {
				byName[nameOf(v)] = v
			}
			for _, pair := range sx.list {
				if len(pair.list) != 2 {
					continue
				}
				v, ok := byName[pair.list[0].atom]
				if !ok {
					continue
				}
				bits, err := decodeValue(v.sort, pair.list[1])
				if err != nil {
					return standaloneResult{res: "unknown"}
				}
				r.vals[v.name] = bits
			}
		}
		return r
	}
	return standaloneResult{res: "unknown"}
}

// standalone decides pc ∧ extra with fresh solver processes.
func (s *solver) standalone(pc []*Term, extra *Term, vars []*Term, timeoutMs int) standaloneResult {
	start := time.Now()
	defer func() { s.wall += time.Since(start) }()
	to := time.Duration(timeoutMs) * time.Millisecond
	ch := make(chan standaloneResult, 2)
	go func() {
		r := runOneShot(s.path, []string{fmt.Sprintf("-T:%d", (timeoutMs+999)/1000)}, s.script(pc, extra, vars, false), to+2*time.Second, vars, s.name)
		r.solver = "z3"
		ch <- r
	}()
	n := 1
	if s.cvc5Path != "" {
		n = 2
		go func() {
			r := runOneShot(s.cvc5Path, []string{"--fp-exp", fmt.Sprintf("--tlimit=%d", timeoutMs)}, s.script(pc, extra, vars, true), to+2*time.Second, vars, s.name)
			r.solver = "cvc5"
			ch <- r
		}()
	}
	res := standaloneResult{res: "unknown"}
	for k := 0; k < n; k++ {
		r := <-ch
		if r.res == "sat" || r.res == "unsat" {
			res = r
			break
		}
	}
	switch res.res {
	case "sat":
		s.nSat++
	case "unsat":
		s.nUnsat++
	default:
		s.nUnknown++
	}
	s.nStandalone++
	return res
}
