// symgo: bounded symbolic execution of Go SSA with an SMT back end.
// Written for /verif (solver-based checking of ChrisTrenkamp/xsel).
//
// usage: symgo run -dir /verif/harness -harness c06.RunArith [-setup c06.Setup]
//
//	[-tier 0|1] [-workers N] [-known id,id] [-out file.json] ...
package main

import (
	"encoding/json"
	"flag"
	"fmt"
	"os"
	"runtime"
	"sort"
	"strings"
	"time"

	"golang.org/x/tools/go/packages"
	"golang.org/x/tools/go/ssa"
	"golang.org/x/tools/go/ssa/ssautil"

	"symgo/interp"
)

// modelTable maps functions of the program under test (or its dependencies) to
// replacement functions in verifharness/models.
var modelTable = map[string]string{
	"strings.Index":                    "StringsIndex",
	"strings.IndexByte":                "StringsIndexByte",
	"strings.LastIndex":                "StringsLastIndex",
	"strings.LastIndexByte":            "StringsLastIndexByte",
	"strings.Count":                    "StringsCount",
	"strings.IndexRune":                "StringsIndexRune",
	"bytes.IndexByte":                  "BytesIndexByte",
	"bytes.Equal":                      "BytesEqual",
	"bytes.Index":                      "BytesIndex",
	"errors.Is":                        "ErrorsIs",
	"github.com/pkg/errors.Wrapf":      "PkgErrorsWrapf",
	"github.com/pkg/errors.Wrap":       "PkgErrorsWrap",
	"github.com/pkg/errors.Errorf":     "PkgErrorsErrorf",
	"github.com/pkg/errors.New":        "PkgErrorsNew",
	"fmt.errorfWrap":                   "FmtErrorfWrap",
	"internal/bytealg.IndexByteString": "StringsIndexByte",
	"internal/bytealg.CountString":     "BytealgCountString",
	"internal/bytealg.Count":           "BytealgCount",
	"internal/bytealg.IndexByte":       "BytesIndexByte",
	"internal/bytealg.Equal":           "BytesEqual",
	"unicode/utf8.ValidString":         "Utf8ValidString",
	"flag.String":                      "FlagString",
	"flag.Bool":                        "FlagBool",
	"flag.Int":                         "FlagInt",
	"flag.Var":                         "FlagVar",
	"flag.Parse":                       "FlagParse",
	"flag.Args":                        "FlagArgs",
	"path/filepath.WalkDir":            "FilepathWalkDir",
}

func main() {
	if len(os.Args) < 2 || os.Args[1] != "run" {
		fmt.Fprintln(os.Stderr, "usage: symgo run [flags]")
		os.Exit(2)
	}
	fs := flag.NewFlagSet("run", flag.ExitOnError)
	dir := fs.String("dir", "/verif/harness", "harness module directory")
	harness := fs.String("harness", "", "pkg.Func of the Run function (pkg relative to verifharness/)")
	setup := fs.String("setup", "", "pkg.Func of the Setup function (optional)")
	tier := fs.Int("tier", 0, "0 quick, 1 thorough")
	workers := fs.Int("workers", runtime.NumCPU(), "worker count")
	known := fs.String("known", "", "comma separated active known-finding ids")
	out := fs.String("out", "", "result JSON file")
	solverPath := fs.String("solver", "z3-new", "solver binary")
	cvc5Path := fs.String("cvc5", "cvc5", "cvc5 binary raced on floating-point goals (empty = off)")
	qto := fs.Int("query-timeout", 60000, "verdict query timeout ms")
	fto := fs.Int("feas-timeout", 10000, "feasibility query timeout ms")
	steps := fs.Int("steps", 4000000, "SSA instruction budget per path")
	depth := fs.Int("depth", 400, "call depth budget")
	maxPaths := fs.Int("max-paths", 0, "stop after this many paths (0 = no cap)")
	deadline := fs.Duration("deadline", 0, "wall clock limit for exploration")
	transcript := fs.String("transcript", "", "write worker 0's solver transcript here")
	forkMaps := fs.Bool("fork-maps", false, "fork map iteration order (forward/reverse)")
	maxViol := fs.Int("max-violations", 3, "counterexamples kept per assertion id")
	witnesses := fs.Int("witnesses", 3, "passing paths for which a model is emitted")
	overlay := fs.String("overlay", "", "virtual=real[,virtual=real] source overlay")
	extraPkgs := fs.String("pkgs", "", "additional package patterns to load")
	countPfx := fs.String("count", "github.com/ChrisTrenkamp/xsel", "package prefixes counted as encoded functions")
	fs.Parse(os.Args[2:])

	if *harness == "" {
		fmt.Fprintln(os.Stderr, "-harness required")
		os.Exit(2)
	}
	t0 := time.Now()
	hpkg, hfn := splitName(*harness)
	patterns := []string{"verifharness/" + hpkg, "verifharness/models", "runtime"}
	if *extraPkgs != "" {
		patterns = append(patterns, strings.Split(*extraPkgs, ",")...)
	}
	cfg := &packages.Config{
		Mode: packages.LoadAllSyntax,
		Dir:  *dir,
		Env:  append(os.Environ(), "GOFLAGS=-mod=mod", "GOPROXY=off", "GOSUMDB=off", "GOTOOLCHAIN=local"),
	}
	if *overlay != "" {
		cfg.Overlay = map[string][]byte{}
		for _, kv := range strings.Split(*overlay, ",") {
			p := strings.SplitN(kv, "=", 2)
			b, err := os.ReadFile(p[1])
			if err != nil {
				fatal("overlay: %v", err)
			}
			cfg.Overlay[p[0]] = b
		}
	}
	pkgs, err := packages.Load(cfg, patterns...)
	if err != nil {
		fatal("load: %v", err)
	}
	if n := packages.PrintErrors(pkgs); n > 0 {
		fatal("%d package errors", n)
	}
	prog, _ := ssautil.AllPackages(pkgs, ssa.InstantiateGenerics|ssa.SanityCheckFunctions)
	prog.Build()
	loadS := time.Since(t0).Seconds()

	find := func(pkgPath, fn string) (*ssa.Package, *ssa.Function) {
		for _, p := range prog.AllPackages() {
			if p.Pkg.Path() == pkgPath {
				return p, p.Func(fn)
			}
		}
		return nil, nil
	}
	sp, runFn := find("verifharness/"+hpkg, hfn)
	if sp == nil || runFn == nil {
		fatal("harness %s not found", *harness)
	}
	h := &interp.Harness{Name: *harness, Pkg: sp, Run: runFn, Models: map[string]*ssa.Function{}}
	if *setup != "" {
		spkg, sfn := splitName(*setup)
		_, f := find("verifharness/"+spkg, sfn)
		if f == nil {
			fatal("setup %s not found", *setup)
		}
		h.Setup = f
	}
	mp, _ := find("verifharness/models", "init")
	if mp == nil {
		fatal("models package not loaded")
	}
	for from, to := range modelTable {
		f := mp.Func(to)
		if f == nil {
			fatal("model %s missing", to)
		}
		h.Models[from] = f
	}
	h.InitOK = []string{
		"verifharness", "github.com/ChrisTrenkamp/xsel", "github.com/goccmack/goutil", "github.com/pkg/errors",
		"io", "strconv", "unicode", "sort", "math", "strings", "bytes", "slices", "cmp", "iter",
		"unicode/utf8", "unicode/utf16", "math/bits", "container/list", "internal/bytealg", "internal/itoa",
		"encoding/json", "encoding/xml", "encoding", "encoding/base64", "bufio", "golang.org/x/net/html", "golang.org/x/net/html/atom", "io/fs", "internal/oserror",
	}
	h.CountPfx = strings.Split(*countPfx, ",")

	opts := interp.Options{
		Workers: *workers, SolverPath: *solverPath, CVC5Path: *cvc5Path, QueryTimeoutMs: *qto, FeasTimeoutMs: *fto,
		StepBudget: *steps, DepthBudget: *depth, MaxPaths: *maxPaths, Tier: *tier,
		MaxViolations: *maxViol, ActiveKnown: map[string]bool{}, Transcript: *transcript, ForkMaps: *forkMaps, WitnessPaths: *witnesses,
	}
	for _, k := range strings.Split(*known, ",") {
		if k != "" {
			opts.ActiveKnown[k] = true
		}
	}
	if *deadline > 0 {
		opts.Deadline = time.Now().Add(*deadline)
	}
	res := interp.Explore(prog, h, opts)

	type outT struct {
		*interp.Result
		LoadS   float64  `json:"load_s"`
		Models  []string `json:"model_table"`
		Options any      `json:"options"`
	}
	o := outT{Result: res, LoadS: loadS}
	for k, v := range modelTable {
		o.Models = append(o.Models, k+" => models."+v)
	}
	sort.Strings(o.Models)
	o.Options = map[string]any{"workers": *workers, "tier": *tier, "query_timeout_ms": *qto, "feas_timeout_ms": *fto,
		"step_budget": *steps, "depth_budget": *depth, "max_paths": *maxPaths, "known_active": *known, "fork_maps": *forkMaps, "solver": *solverPath}
	b, _ := json.MarshalIndent(o, "", " ")
	if *out != "" {
		if err := os.WriteFile(*out, b, 0o644); err != nil {
			fatal("write: %v", err)
		}
	} else {
		os.Stdout.Write(b)
		fmt.Println()
	}
	st := res.Stats
	fmt.Fprintf(os.Stderr, "symgo %s: load %.1fs setup %.1fs explore %.1fs paths=%d %v obligations=%d (conc %d, unsat %d, sat %d, inconclusive %d) solver %d/%d/%d %.1fs\n",
		*harness, loadS, res.SetupS, res.WallS, st.Paths, st.PathsByEnd, st.Obligations, st.DischargedConc, st.DischargedUnsat, st.Violated, st.Inconclusive,
		st.SolverSat, st.SolverUnsat, st.SolverUnknown, st.SolverWallS)
	for _, e := range res.WorkerErrors {
		fmt.Fprintln(os.Stderr, "worker error:", e)
	}
	if len(res.WorkerErrors) == *workers {
		os.Exit(3)
	}
}

func splitName(s string) (string, string) {
	k := strings.LastIndexByte(s, '.')
	if k < 0 {
		fatal("bad name %q (want pkg.Func)", s)
	}
	return s[:k], s[k+1:]
}

func fatal(f string, a ...any) {
	fmt.Fprintf(os.Stderr, "symgo: "+f+"\n", a...)
	os.Exit(2)
}
