#!/usr/bin/env python3
"""keepseed.py <ID> <status> <checks-that-catch> <note>: copy a verified seeded change into /verif/seeded/<ID>/"""
import json, os, shutil, subprocess, sys
sid, status, catch, note = sys.argv[1], sys.argv[2], sys.argv[3], sys.argv[4]
src = "/tmp/seed/" + sid
dst = "/verif/seeded/" + sid
os.makedirs(dst, exist_ok=True)
shutil.copy(src + "/seed.diff", dst + "/patch.diff")
meta = json.load(open(src + "/meta.json"))
others = subprocess.run("git ls-files --others --exclude-standard", shell=True, cwd=src, text=True, capture_output=True).stdout.split()
demos = []
for f in others:
    if f in ("seed.diff", "meta.json") or f.endswith(".diff"):
        continue
    os.makedirs(os.path.dirname(os.path.join(dst, "demo", f)) or ".", exist_ok=True)
    shutil.copy(os.path.join(src, f), os.path.join(dst, "demo", f))
    demos.append(f)
prop = sid[:3]
meta.update({
    "breaks_property": prop,
    "needs_to_manifest": meta.get("needs"),
    "demo_files": demos,
    "verified": "applied patch.diff to a fresh worktree of /repo: go build ./... ok; existing suite passes with the patch (demo moved away); demo_cmd fails with the patch and passes without (seedcheck.sh)",
    "ran": "seedcheck.sh: ./check " + catch.replace(",", " ; ./check ") + " against a copy of /repo with patch.diff applied, bind-mounted over /repo in a private mount namespace (rounds 1-2: git -C /repo apply; ./check; git -C /repo checkout -- .)",
    "status": status,
    "caught_by": [c for c in catch.split(",") if c],
    "note": note,
})
json.dump(meta, open(dst + "/meta.json", "w"), indent=1)
print("kept", dst)
