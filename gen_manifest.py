#!/usr/bin/env python3
"""Regenerates MANIFEST.json from harnesses.json (claimed checks) and properties.jsonl."""
import json
props=[json.loads(l) for l in open('/verif/properties.jsonl')]
reg=json.load(open('/verif/harnesses.json'))
NA=json.load(open('/verif/not_applicable.json'))
m={
 "version":1,
 "setup_cmd":"cd /verif && ./setup.sh",
 "hooks":{"guard":"verif","enable":"none needed: harnesses live in /verif/harness and use xsel's public API (the CLI harness is injected as an in-memory overlay); the build tag 'verif' is reserved and guards nothing","baseline_off_cmd":"cd /repo && go build ./... && go test -vet=off -count=1 -timeout 25m ./...","source_commits":[],"add_only":True},
 "engines":[{"name":"symgo","path":"/verif/symgo","serves_properties":sorted(reg.keys()),"kind_free_text":"bounded symbolic executor for Go SSA (fork of x/tools go/ssa/interp with symbolic scalars/strings, fork-by-re-execution from a checkpoint with undo log, value-set fast path) with z3 5.1.0 / cvc5 1.0 back ends; every counterexample is replayed against the natively compiled code before it is reported"}],
 "checks":[],"not_applicable":[],
 "notes":"DESIGN.md describes the approach; known_findings.json lists recorded and repaired defects; harnesses.json is the registry of symbolic harnesses with their bounds"}
for p in props:
    pid=p['id']
    if pid in reg:
        r=reg[pid]
        m["checks"].append({
         "property_id":pid,
         "quick_cmd":"cd /verif && ./check %s --tier quick"%pid,
         "thorough_cmd":"cd /verif && ./check %s --tier thorough"%pid,
         "evidence_file":"/verif/evidence/%s.json"%pid,
         "replay_cmd_template":"cd /verif && ./check --replay {path}",
         "engine":"symgo",
         "level_claimed":{"category":r.get("level","model_checking"),
            "text":r.get("level_text","bounded symbolic model checking of the real code: the harness's inputs are solver variables, every feasible path of the real functions is explored, each assertion is an SMT query pc AND NOT assertion; unsat on every path = the property holds for every input inside the stated bounds; sat = concrete input, replayed natively before it is reported. ")+" Harnesses: "+", ".join(h["run"] for h in r["harnesses"]),
            "design_ref":"DESIGN.md section 4 "+pid},
         "level_note":r.get("level_note","trusted: go/ssa lowering and symgo's instruction semantics (validated by native replay of passing paths and of every counterexample), the stdlib models listed in the evidence, the reference model in harness/spec, z3/cvc5; bounds are listed per harness in the evidence; nothing is claimed outside them"),
         "technique":r.get("technique","symbolic execution of Go SSA + SMT (QF_BVFP), differential against a reference model, native counterexample replay")})
    else:
        m["not_applicable"].append({"property_id":pid,"reason":NA.get(pid,"check not built yet (work in progress this session); no claim made")})
json.dump(m,open('/verif/MANIFEST.json','w'),indent=1)
print("claimed:",[c["property_id"] for c in m["checks"]])
