#!/usr/bin/env python3
"""Generates harness/cmd/clireplay: a verbatim copy of /repo/xsel/*.go (package main, only
`func main()` renamed to `func xselMain()`) plus the CLI harness and its replay main.
Regenerated from /repo's working tree on every run. If the command's functions the harness
binds to are gone, the harness will not compile: the check then reports 'cannot bind'."""
import glob, os, re, shutil, sys
V = os.path.dirname(os.path.abspath(__file__))
out = os.path.join(V, "harness", "cmd", "clireplay")
shutil.rmtree(out, ignore_errors=True)
os.makedirs(out)
for f in sorted(glob.glob("/repo/xsel/*.go")):
    if f.endswith("_test.go"):
        continue
    src = open(f).read()
    src, n = re.subn(r"^func main\(\) \{", "func xselMain() {", src, flags=re.M)
    open(os.path.join(out, "repo_" + os.path.basename(f)), "w").write("// Code copied from " + f + " by gen_cli.py. DO NOT EDIT.\n" + src)
shutil.copy(os.path.join(V, "cli", "harness.go.txt"), os.path.join(out, "zz_harness.go"))
shutil.copy(os.path.join(V, "cli", "replay_main.go.txt"), os.path.join(out, "zz_replay_main.go"))
